#!/bin/sh
# Build the overlay venv the checks run in: /venv's packages + /repo + z3-solver from the
# offline wheelhouse.  Idempotent; called by MANIFEST.setup_cmd and by ./check itself.
set -e
cd "$(dirname "$0")"
if [ ! -x .venv/bin/python ] || ! .venv/bin/python -c "import z3, numpy, scipy" 2>/dev/null; then
    rm -rf .venv
    /venv/bin/python -m venv .venv
    SP=$(.venv/bin/python -c "import site;print(site.getsitepackages()[0])")
    printf '/venv/lib/python3.12/site-packages\n' > "$SP/verif_overlay.pth"
    PIP_NO_INDEX=1 .venv/bin/pip install -q --no-index --find-links /opt/veriftools/wheels z3-solver
fi
.venv/bin/python -c "import z3, numpy, scipy; print('verif venv ok: z3', z3.get_version_string())"
