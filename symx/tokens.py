"""symx.tokens -- symbolic printf / scanf (DESIGN 2.5).

`'%g' % v` with a symbolic operand yields ordinary text in which the digits of
the number are replaced by a placeholder  \\x01<id>\\x02 .  The sign is literal
(the conversion forks on it), so a reader sees exactly what a parser can see
besides digits.  The registry (per path, in ctx().tokens) remembers the
non-negative magnitude term and the conversion, so the shadow
float/int/complex can read the number back, with the relative or absolute
rounding bound the conversion carries.
"""
import re
import z3
from fractions import Fraction

from . import core
from .core import SR, SC, SI, SB, is_sym, HarnessError, ctx

OPEN, CLOSE = '\x01', '\x02'
PH = re.compile('\x01(\\d+)\x02')
SPEC = re.compile(r'%(?P<flags>[-+ #0]*)(?P<width>\d+|\*)?(?:\.(?P<prec>\d+))?(?P<conv>[diouxXeEfFgGcrsa%])')


def has_token(s):
    return isinstance(s, str) and OPEN in s


def _register(mag, conv, prec, exact=False):
    c = ctx()
    k = len(c.tokens) + 1
    c.tokens[k] = dict(mag=mag, conv=conv, prec=prec, exact=exact)
    return '%s%d%s' % (OPEN, k, CLOSE)


def _trunc_int(v):
    """Truncation toward zero of a non-negative SR as an SI."""
    c = ctx()
    k = c.fresh('trunc', 'int')
    K = SR(z3.ToReal(k))
    c.axiom(k >= 0)
    c.axiom((K <= v).t)
    c.axiom((v < K + 1).t)
    return SI(k)


EXACT_CONV = [False]      # True: %g/%e/%f tokens read back exactly (unit/layout checks, precision aside)
SIGN_FORK = [True]       # False: numbers are registered signed, no fork on the sign (report readers)
FMT_HOOK = [None]        # set by symx.decimal mode: (spec text, arg) -> object or None


def _fmt_one(m, arg):
    if FMT_HOOK[0] is not None and is_sym(arg):
        r = FMT_HOOK[0](m.group(0), arg)
        if r is not None:
            return r
    if hasattr(arg, 'padded') and m.group('conv') == 's':
        return arg.padded(int(m.group('width') or 0))
    flags, width, prec, conv = m.group('flags') or '', m.group('width'), m.group('prec'), m.group('conv')
    spec = m.group(0)
    if isinstance(arg, SC):
        raise TypeError('a real number is required, not complex (symbolic)')
    if not is_sym(arg):
        if has_token(arg):
            if conv != 's':
                raise TypeError('%%%s format: a real number is required, not str' % conv)
            return str(arg) if not width else _pad(str(arg), flags, int(width))
        return spec % (arg,)
    if isinstance(arg, SB):
        raise HarnessError('formatting a symbolic bool')
    if not SIGN_FORK[0] and conv in 'dieEfFgG':
        if conv in 'di':
            if isinstance(arg, SR):
                # truncation toward zero of a signed real, no fork
                c = ctx()
                k = c.fresh('trunc', 'int')
                K = SR(z3.ToReal(k))
                c.axiom(z3.Or(z3.And((arg >= 0).t, (K <= arg).t, (arg < K + 1).t),
                              z3.And((arg < 0).t, (K >= arg).t, (arg > K - 1).t)))
                body = _register(SI(k), 'x', None, exact=True)
            else:
                body = _register(arg, 'x', None, exact=True)
        else:
            p = 6 if prec is None else int(prec)
            body = _register(SR.lift(arg), conv.lower(), p)
            ctx().tokens[int(PH.fullmatch(body).group(1))]['signed'] = True
        return _pad(body, flags, int(width)) if width else body
    # symbolic number: fork on the sign, register the magnitude
    if conv in 'di':
        if isinstance(arg, SR):
            neg = bool(arg < 0)
            mag = _trunc_int(-arg if neg else arg)
            zero = bool(mag == 0) if neg else False
            neg = neg and not zero
        else:
            neg = bool(arg < 0)
            mag = -arg if neg else arg
        body = _register(mag, 'd', None, exact=True)
    elif conv in 'eEfFgG':
        v = SR.lift(arg)
        neg = bool(v < 0)
        mag = -v if neg else v
        p = 6 if prec is None else int(prec)
        body = _register(mag, conv.lower(), p)
    elif conv in 'sr':
        if isinstance(arg, SI):
            neg = bool(arg < 0)
            mag = -arg if neg else arg
            body = _register(mag, 'd', None, exact=True)
        else:
            v = SR.lift(arg)
            neg = bool(v < 0)
            mag = -v if neg else v
            body = _register(mag, 'r', 17, exact=True)
    else:
        raise HarnessError('conversion %r of a symbolic value' % spec)
    if neg:
        s = '-' + body
    elif '+' in flags:
        s = '+' + body
    elif ' ' in flags:
        s = ' ' + body
    else:
        s = body
    if width:
        s = _pad(s, flags, int(width))
    return s


def _pad(s, flags, width):
    # visible length of a placeholder is unknown; pad as if it had one digit
    vis = len(PH.sub('0', s))
    if vis >= width:
        return s
    if '-' in flags:
        return s + ' ' * (width - vis)
    return ' ' * (width - vis) + s


def sx_mod(left, right):
    """The `%` operator of the shadow modules."""
    if isinstance(left, str):
        args = right if isinstance(right, tuple) else (right,)
        symbolic = any(is_sym(a) or has_token(a) or hasattr(a, 'padded') for a in args)
        if not symbolic:
            return left % right
        out = []
        pos = 0
        it = iter(args)
        for m in SPEC.finditer(left):
            out.append(left[pos:m.start()])
            pos = m.end()
            if m.group('conv') == '%':
                out.append('%')
                continue
            try:
                a = next(it)
            except StopIteration:
                raise TypeError('not enough arguments for format string')
            piece = _fmt_one(m, a)
            if not isinstance(piece, str):
                # a symbolic decimal string: only allowed as the whole result
                if left.strip() != m.group(0):
                    raise HarnessError('symbolic decimal inside a longer format %r' % left)
                return piece
            out.append(piece)
        out.append(left[pos:])
        rest = list(it)
        if rest:
            raise TypeError('not all arguments converted during string formatting')
        return ''.join(out)
    if is_sym(left) or is_sym(right):
        return sym_mod(left, right)
    return left % right


def sym_mod(a, b):
    """Python's float % for symbolic reals: a - floor(a/b)*b with an integer quotient."""
    c = ctx()
    a = SR.lift(a)
    b = SR.lift(b)
    q = c.fresh('quot', 'int')
    Q = SR(z3.ToReal(q))
    r = a - Q * b
    if bool(b > 0):
        c.axiom((r >= 0).t)
        c.axiom((r < b).t)
    else:
        c.axiom((r <= 0).t)
        c.axiom((r > b).t)
    return r


# ---------------------------------------------------------------------------
# reading numbers back
# ---------------------------------------------------------------------------

def _token_value(k):
    """Value a reader obtains from the digits of token k (non-negative)."""
    c = ctx()
    t = c.tokens[k]
    if 'read' in t:
        return t['read']
    mag = t['mag']
    if t['exact'] or EXACT_CONV[0]:
        t['read'] = mag
        return mag
    conv, p = t['conv'], t['prec']
    r = SR(c.fresh('read%d' % k))
    v = SR.lift(mag)
    if t.get('signed'):
        va = abs(v)
    else:
        va = v
        c.axiom((r >= 0).t)
    if conv == 'g':
        if p >= 15:
            t['read'] = v
            return v
        rel = Fraction(1, 2) * Fraction(10) ** (1 - max(p, 1))
        c.axiom((abs(r - v) <= va * rel).t)
    elif conv == 'e':
        rel = Fraction(1, 2) * Fraction(10) ** (-p)
        c.axiom((abs(r - v) <= va * rel).t)
    elif conv == 'f':
        ab = Fraction(1, 2) * Fraction(10) ** (-p)
        c.axiom((abs(r - v) <= ab).t)
    else:
        raise HarnessError('read of conversion %r' % conv)
    t['read'] = r
    return r


_NUM = re.compile(r'\s*([+-]?)\s*(?:\x01(\d+)\x02|(\d+\.?\d*(?:[eE][+-]?\d+)?|\.\d+(?:[eE][+-]?\d+)?|inf|nan|infinity))\s*$',
                  re.I)


def parse_real(s, what='float'):
    m = _NUM.match(s)
    if not m or (m.group(1) and s.strip()[len(m.group(1)):][:1].isspace()):
        raise ValueError('could not convert string to %s: %r' % (what, _show(s)))
    sign, k, lit = m.group(1), m.group(2), m.group(3)
    if k is not None:
        v = _token_value(int(k))
    else:
        v = float(lit)
    return -v if sign == '-' else v


def parse_int(s):
    m = _NUM.match(s)
    if not m:
        raise ValueError('invalid literal for int() with base 10: %r' % _show(s))
    sign, k, lit = m.group(1), m.group(2), m.group(3)
    if k is not None:
        t = ctx().tokens[int(k)]
        if t['conv'] == 'x' and isinstance(t['mag'], SI):
            v = t['mag']
        elif t['conv'] != 'd':
            raise ValueError('invalid literal for int() with base 10: %r' % _show(s))
        else:
            v = t['mag']
    else:
        v = int(lit)
    return -v if sign == '-' else v


_CPLX = re.compile(
    r'\s*\(?\s*(?P<a>[+-]?(?:\x01\d+\x02|\d+\.?\d*(?:[eE][+-]?\d+)?|\.\d+(?:[eE][+-]?\d+)?))'
    r'(?:(?P<aj>[jJ])|(?P<b>[+-](?:\x01\d+\x02|\d+\.?\d*(?:[eE][+-]?\d+)?|\.\d+(?:[eE][+-]?\d+)?))[jJ])?\s*\)?\s*$')


def parse_complex(s):
    m = _CPLX.match(s)
    if not m:
        raise ValueError('complex() arg is a malformed string')
    a = parse_real(m.group('a'), 'complex')
    if m.group('aj'):
        return _mk_c(0.0, a)
    if m.group('b'):
        return _mk_c(a, parse_real(m.group('b'), 'complex'))
    return _mk_c(a, 0.0)


def _mk_c(re_, im_):
    if is_sym(re_) or is_sym(im_):
        return SC(re_, im_)
    return complex(re_, im_)


def _show(s):
    return PH.sub(lambda m: '<tok%s>' % m.group(1), s)


def tokens_in(s):
    return [int(k) for k in PH.findall(s)]


# ---------------------------------------------------------------------------
# exact, signed tokens for report readers (no sign fork)
# ---------------------------------------------------------------------------

def exact(v):
    """Text for one number of a report: a placeholder carrying the signed symbolic value, or the
    repr of a concrete number."""
    if is_sym(v):
        if isinstance(v, SC):
            raise HarnessError('exact token of a complex value')
        return _register(v, 'x', None, exact=True)
    return repr(float(v))


def read_exact(s):
    """Value of a text produced by exact()."""
    s = s.strip()
    m = PH.fullmatch(s)
    if m:
        t = ctx().tokens[int(m.group(1))]
        if t['conv'] != 'x':
            raise HarnessError('read_exact on a %r token' % t['conv'])
        return t['mag']
    return float(s)


def format_float_stub(floats, use_e=0):
    """Token-producing replacement of util.format_float outside C19 (DESIGN 2.6)."""
    return tuple(exact(f) for f in floats)


def read_field(s):
    """Value a reader obtains from one numeric field of a report: exact token, printf token
    (with the rounding bound its conversion carries), or a literal."""
    s = s.strip()
    m = PH.fullmatch(s.lstrip('+-'))
    if m:
        k = int(m.group(1))
        t = ctx().tokens[k]
        if t['conv'] == 'x':
            v = t['mag']
        else:
            v = _token_value(k)
        return -v if s.startswith('-') else v
    return float(s)
