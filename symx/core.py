"""symx.core -- symbolic numbers backed by z3 terms, and a DFS path explorer.

The real functions of /repo are executed on these objects.  Every arithmetic
operation builds a z3 term, every comparison yields an SB whose truth value is
decided by the explorer (fork when both outcomes are feasible under the path
condition).  No symbolic division is ever emitted: a real is a pair
numerator/denominator with a denominator that is positive under the path
condition, equalities and comparisons are cross-multiplied (DESIGN 0 / 2.2).
"""
import math
import time
from fractions import Fraction

import numpy as np
import z3


class HarnessError(Exception):
    """An unsupported construct or an engine gap: never a verdict."""


class PathAbort(BaseException):
    """Raised to abandon the current path (infeasible / budget)."""


# --------------------------------------------------------------------------
# exploration context
# --------------------------------------------------------------------------

def _checked(solver, timeout_ms, *extra):
    """solver.check with a watchdog thread calling Z3_interrupt (z3's own timeout is not always honoured)."""
    import threading
    done = threading.Event()

    def fire():
        if not done.is_set():
            try:
                solver.interrupt()
            except Exception:
                pass
    tm = threading.Timer(timeout_ms / 1000.0 + 2.0, fire)
    tm.daemon = True
    tm.start()
    try:
        try:
            return solver.check(*extra)
        except z3.Z3Exception:
            return z3.unknown
    finally:
        done.set()
        tm.cancel()


class Ctx:
    def __init__(self, prefix=(), query_timeout_ms=10000, assumptions=(), div_mode='assume', sqrt_mode='fresh', fork_policy='check', prefer_true=()):
        self.fork_policy = fork_policy
        self.prefer_true = prefer_true
        self.soft_assumed = 0
        self.solver = z3.Solver()
        self.solver.set('timeout', query_timeout_ms)
        self.query_timeout_ms = query_timeout_ms
        self.prefix = list(prefix)      # [(value, flippable)]
        self.trail = []                 # decisions taken on this path
        self.pc = []                    # path condition (z3 bools)
        self.side = []                  # side conditions (den != 0 ...), (z3 bool, text)
        self.axioms = []                # definitional constraints of fresh symbols
        self.tokens = {}                # token registry (symx.tokens)
        self.solver_s = 0.0
        self.queries = 0
        self.unknown = 0
        self.fresh_n = 0
        self.notes = []
        self.positive = set()
        self.div_mode = div_mode
        self.sqrt_mode = sqrt_mode
        for a in assumptions:
            self.assume(a)

    # -- constraints --------------------------------------------------------
    def assume(self, c):
        c = _as_bool(c)
        self.pc.append(c)
        self.solver.add(c)
        # remember syntactically positive terms (cheap sign knowledge for SR.inv)
        if z3.is_app(c) and c.decl().kind() == z3.Z3_OP_GT and _is_val(c.arg(1), 0):
            self.positive.add(c.arg(0).get_id())
        if z3.is_app(c) and c.decl().kind() == z3.Z3_OP_GE and z3.is_rational_value(c.arg(1)) \
                and c.arg(1).numerator_as_long() > 0:
            self.positive.add(c.arg(0).get_id())

    def known_pos(self, t, depth=0):
        if z3.is_rational_value(t):
            return t.numerator_as_long() > 0
        if t.get_id() in self.positive:
            return True
        if depth > 6 or not z3.is_app(t):
            return False
        k = t.decl().kind()
        if k in (z3.Z3_OP_MUL, z3.Z3_OP_ADD):
            return all(self.known_pos(a, depth + 1) for a in t.children())
        return False

    def axiom(self, c):
        self.axioms.append(c)
        self.solver.add(c)

    def fresh(self, name, sort='real'):
        self.fresh_n += 1
        n = '%s!%d' % (name, self.fresh_n)
        if sort == 'real':
            return z3.Real(n)
        if sort == 'int':
            return z3.Int(n)
        if sort == 'bool':
            return z3.Bool(n)
        raise HarnessError(sort)

    def check(self, *extra):
        t0 = time.time()
        r = self.solver.check(*extra)
        self.solver_s += time.time() - t0
        self.queries += 1
        if r == z3.unknown:
            self.unknown += 1
        return r

    # -- branching ----------------------------------------------------------
    def _site_matches(self):
        import sys as _sys
        f = _sys._getframe(2)
        while f is not None:
            if '/mininec/' in f.f_code.co_filename:
                return (f.f_code.co_name in self.prefer_true)
            f = f.f_back
        return False

    def next_tag(self):
        pos = len(self.trail)
        if pos < len(self.prefix):
            return self.prefix[pos][2]
        return None

    def branch(self, cond, tag=None):
        cond = z3.simplify(cond)
        if z3.is_true(cond):
            return True
        if z3.is_false(cond):
            return False
        pos = len(self.trail)
        if pos < len(self.prefix):
            val, flip, _t = self.prefix[pos]
            self.trail.append((val, flip, tag))
            if flip:
                c = cond if val else z3.Not(cond)
                self.pc.append(c)
                self.solver.add(c)
            return val
        if self.prefer_true and self._site_matches() and (not PREFER_TRUE_NONLINEAR_ONLY or _nonlinear(cond)):
            # a designated site (e.g. the -999 floor of the dBi table): do not fork; take the True
            # side as a recorded ASSUMPTION unless it is infeasible
            if self.fork_policy == 'assume':
                rt = z3.sat            # no query at all: an infeasible assumption shows up in the twin query
            else:
                self.solver.set('timeout', 1000)
                rt = self.check(cond)
                self.solver.set('timeout', self.query_timeout_ms)
            if rt == z3.unsat:
                self.trail.append((False, False, tag))
                return False
            self.trail.append((True, False, tag))
            self.pc.append(cond)
            self.solver.add(cond)
            self.soft_assumed += 1
            return True
        if self.fork_policy == 'assume':
            t_ok = f_ok = True          # no feasibility query: infeasible paths are weeded out by the twin query
        else:
            rt = self.check(cond)
            rf = self.check(z3.Not(cond))
            t_ok = rt != z3.unsat
            f_ok = rf != z3.unsat
        if t_ok and f_ok:
            if DEBUG_FORKS:
                import traceback
                fr = [f for f in traceback.extract_stack() if '/repo/' in f.filename][-1:]
                self.notes.append('fork: %s @ %s' % (str(cond)[:120], ['%s:%d' % (f.name, f.lineno) for f in fr]))
            self.trail.append((True, True, tag))
            self.pc.append(cond)
            self.solver.add(cond)
            return True
        if t_ok:
            self.trail.append((True, False, tag))
            return True
        if f_ok:
            self.trail.append((False, False, tag))
            return False
        raise PathAbort('infeasible path')


_ctx = None
DEBUG_FORKS = False
PREFER_TRUE_NONLINEAR_ONLY = False     # prefer_true sites: only conditions with products of variables are assumed, linear ones still fork
CIRCLE_MODE = 'fresh'      # 'uf': cos/sin of a symbolic angle are uninterpreted functions of the angle term


def _nonlinear(t):
    stack = [t]
    seen = set()
    while stack:
        x = stack.pop()
        if x.get_id() in seen:
            continue
        seen.add(x.get_id())
        if z3.is_app(x):
            k = x.decl().kind()
            if k == z3.Z3_OP_POWER:
                return True
            if k == z3.Z3_OP_MUL and sum(1 for c in x.children() if not (z3.is_rational_value(c) or z3.is_int_value(c))) >= 2:
                return True
            stack.extend(x.children())
    return False


def _ids(c, *terms):
    """ids of z3 terms for memo keys; the terms are kept alive for the lifetime of the context
    (z3 recycles the id of a garbage-collected term, which would alias memo entries)."""
    keep = c.__dict__.setdefault('keepalive', [])
    out = []
    for t in terms:
        if t is None:
            out.append(None)
        else:
            keep.append(t)
            out.append(t.get_id())
    return tuple(out)


def ctx():
    if _ctx is None:
        raise HarnessError('symbolic value used outside an exploration')
    return _ctx


def set_ctx(c):
    global _ctx
    _ctx = c


class PathResult:
    def __init__(self, value, exc, c):
        self.value = value
        self.exc = exc
        self.pc = list(c.pc)
        self.axioms = list(c.axioms)
        self.side = list(c.side)
        self.trail = list(c.trail)
        self.tokens = c.tokens
        self.solver_s = c.solver_s
        self.queries = c.queries
        self.unknown = c.unknown
        self.notes = c.notes
        self.ctx = c


def explore(fn, max_paths=2000, query_timeout_ms=10000, wall_s=None,
            catch=(Exception,), assumptions=(), div_mode='assume', sqrt_mode='fresh', fork_policy='check',
            prefer_true=()):
    """Run fn() once per feasible path (DFS by re-execution).

    fn receives no arguments and creates its own symbolic inputs (same names on
    every re-execution).  Yields PathResult objects.  The generator attribute
    'truncated' is communicated through the returned list's .truncated.
    """
    results = PathList()
    prefix = []
    t0 = time.time()
    while True:
        c = Ctx(prefix, query_timeout_ms, assumptions=(), div_mode=div_mode, sqrt_mode=sqrt_mode,
                fork_policy=fork_policy, prefer_true=prefer_true)
        set_ctx(c)
        try:
            for a in assumptions:
                c.assume(a() if callable(a) else a)
            try:
                v = fn()
                res = PathResult(v, None, c)
            except PathAbort as e:
                res = None
                results.aborted += 1
            except HarnessError:
                raise
            except catch as e:
                res = PathResult(None, e, c)
        finally:
            set_ctx(None)
        if res is not None:
            results.append(res)
        results.solver_s += c.solver_s
        results.queries += c.queries
        results.unknown += c.unknown
        # next prefix: flip the last flippable decision that is still True
        trail = list(c.trail)
        while trail and not (trail[-1][1] and trail[-1][0]):
            trail.pop()
        if not trail:
            break
        trail[-1] = (False, True, trail[-1][2])
        prefix = trail
        if len(results) + results.aborted >= max_paths or \
           (wall_s is not None and time.time() - t0 > wall_s):
            results.truncated = True
            break
    return results


class PathList(list):
    def __init__(self):
        super().__init__()
        self.truncated = False
        self.aborted = 0
        self.solver_s = 0.0
        self.queries = 0
        self.unknown = 0


# --------------------------------------------------------------------------
# helpers
# --------------------------------------------------------------------------

def _frac(x):
    if isinstance(x, Fraction):
        return x
    if isinstance(x, (bool, np.bool_)):
        return Fraction(int(x))
    if isinstance(x, (int, np.integer)):
        return Fraction(int(x))
    if isinstance(x, (float, np.floating)):
        x = float(x)
        if math.isnan(x) or math.isinf(x):
            raise HarnessError('non-finite float in a rational context')
        return Fraction(x)
    raise HarnessError('cannot lift %r' % (type(x),))


def RV(x):
    f = _frac(x)
    return z3.RealVal(str(f))


def is_num(x):
    return isinstance(x, (int, float, Fraction, np.integer, np.floating, bool, np.bool_))


def is_cnum(x):
    return isinstance(x, (complex, np.complexfloating))


_SYM = ()


def is_sym(x):
    return isinstance(x, _SYM)


def register_sym(cls):
    global _SYM
    _SYM = _SYM + (cls,)


def _as_bool(c):
    if isinstance(c, SB):
        return c.t
    if isinstance(c, (bool, np.bool_)):
        return z3.BoolVal(bool(c))
    return c


def _is_val(t, v):
    return z3.is_rational_value(t) and t.numerator_as_long() == v * t.denominator_as_long()


def _small(t, budget=12):
    """True if the term has at most `budget` nodes."""
    stack, n = [t], 0
    while stack:
        x = stack.pop()
        n += 1
        if n > budget:
            return False
        stack.extend(x.children())
    return True


def _mul(a, b):
    if z3.is_rational_value(a):
        if _is_val(a, 0):
            return a
        if _is_val(a, 1):
            return b
        if z3.is_rational_value(b):
            return z3.RealVal(str(Fraction(a.numerator_as_long(), a.denominator_as_long())
                                  * Fraction(b.numerator_as_long(), b.denominator_as_long())))
    if z3.is_rational_value(b):
        if _is_val(b, 0):
            return b
        if _is_val(b, 1):
            return a
    return a * b


def _add(a, b):
    if z3.is_rational_value(a) and _is_val(a, 0):
        return b
    if z3.is_rational_value(b) and _is_val(b, 0):
        return a
    if z3.is_rational_value(a) and z3.is_rational_value(b):
        return z3.RealVal(str(Fraction(a.numerator_as_long(), a.denominator_as_long())
                              + Fraction(b.numerator_as_long(), b.denominator_as_long())))
    return a + b


def _neg(a):
    if z3.is_rational_value(a):
        return z3.RealVal(str(-Fraction(a.numerator_as_long(), a.denominator_as_long())))
    return -a


_ONE = z3.RealVal(1)
_ZERO = z3.RealVal(0)


# --------------------------------------------------------------------------
# SB: symbolic bool
# --------------------------------------------------------------------------

class SB:
    __array_ufunc__ = None
    __slots__ = ('t',)

    def __init__(self, t):
        self.t = t

    def __bool__(self):
        return ctx().branch(self.t)

    def __and__(self, o):
        return SB(z3.And(self.t, _as_bool(o)))
    __rand__ = __and__

    def __or__(self, o):
        return SB(z3.Or(self.t, _as_bool(o)))
    __ror__ = __or__

    def __invert__(self):
        return SB(z3.Not(self.t))

    def __mul__(self, o):           # numpy idiom: cidx * cond
        if isinstance(o, (SB, bool, np.bool_)):
            return self & o
        return NotImplemented
    __rmul__ = __mul__

    def __repr__(self):
        return 'SB(%s)' % self.t


# --------------------------------------------------------------------------
# SR: symbolic real = num / den, den > 0
# --------------------------------------------------------------------------

def _broadcast(op, arr, me, swap):
    out = np.empty(arr.shape, dtype=object)
    flat_in = arr.reshape(-1)
    flat_out = out.reshape(-1)
    for i in range(flat_in.shape[0]):
        x = flat_in[i]
        if isinstance(x, np.generic):
            x = x.item()
        flat_out[i] = op(x, me) if swap else op(me, x)
    return out


import operator as _op


class _Num:
    """Shared numpy plumbing for SR / SC / SI."""
    __array_ufunc__ = None
    __array_priority__ = 1000

    def __hash__(self):
        return 7

    def __float__(self):
        raise HarnessError('symbolic value forced to float')

    def __complex__(self):
        raise HarnessError('symbolic value forced to complex')

    def _arr(self, op, o, swap):
        return _broadcast(op, o, self, swap)


def _binop(name, fn):
    def f(self, o):
        if isinstance(o, np.ndarray):
            return _broadcast(fn, o, self, False)
        return getattr(self, '_' + name)(o, False)

    def r(self, o):
        if isinstance(o, np.ndarray):
            return _broadcast(fn, o, self, True)
        return getattr(self, '_' + name)(o, True)
    return f, r


class SR(_Num):
    __slots__ = ('n', 'd')

    def __init__(self, n, d=None):
        self.n = n
        self.d = d          # None == 1

    # -- construction -----------------------------------------------------
    @staticmethod
    def var(name):
        return SR(z3.Real(name))

    @staticmethod
    def lift(x):
        if isinstance(x, SR):
            return x
        if isinstance(x, SI):
            return SR(z3.ToReal(x.t))
        return SR(RV(x))

    @property
    def den(self):
        return _ONE if self.d is None else self.d

    def const(self):
        """Fraction if this is a concrete value else None."""
        if z3.is_rational_value(self.n) and (self.d is None or z3.is_rational_value(self.d)):
            v = Fraction(self.n.numerator_as_long(), self.n.denominator_as_long())
            if self.d is not None:
                v /= Fraction(self.d.numerator_as_long(), self.d.denominator_as_long())
            return v
        return None

    # -- arithmetic -------------------------------------------------------
    def _coerce(self, o):
        if isinstance(o, SR):
            return o
        if isinstance(o, SI):
            return SR.lift(o)
        if is_num(o):
            return SR(RV(o))
        return None

    def _add(self, o, swap):
        if isinstance(o, SC) or is_cnum(o):
            return SC.lift(self)._add(o, swap)
        b = self._coerce(o)
        if b is None:
            return NotImplemented
        a = self
        if a.d is None and b.d is None:
            return SR(_add(a.n, b.n))
        if a.d is not None and b.d is not None and a.d.eq(b.d):
            return SR(_add(a.n, b.n), a.d)
        return SR(_add(_mul(a.n, b.den), _mul(b.n, a.den)), _mul(a.den, b.den))

    def _sub(self, o, swap):
        if isinstance(o, SC) or is_cnum(o):
            return SC.lift(self)._sub(o, swap)
        b = self._coerce(o)
        if b is None:
            return NotImplemented
        a = self
        if swap:
            a, b = b, a
        return a._add(SR(_neg(b.n), b.d), False)

    def _mul(self, o, swap):
        if isinstance(o, SC) or is_cnum(o):
            return SC.lift(self)._mul(o, swap)
        b = self._coerce(o)
        if b is None:
            return NotImplemented
        a = self
        n = _mul(a.n, b.n)
        if a.d is None and b.d is None:
            return SR(n)
        return SR(n, _mul(a.den, b.den))

    def _truediv(self, o, swap):
        if isinstance(o, SC) or is_cnum(o):
            return SC.lift(self)._truediv(o, swap)
        b = self._coerce(o)
        if b is None:
            return NotImplemented
        a = self
        if swap:
            a, b = b, a
        return a * b.inv()

    def inv(self):
        c = ctx()
        if z3.is_rational_value(self.n):
            if _is_val(self.n, 0):
                raise ZeroDivisionError('float division by zero')
            f = Fraction(self.n.numerator_as_long(), self.n.denominator_as_long())
            return SR(_mul(RV(1 / f), self.den))
        nz = self.n != 0
        c.side.append((nz, 'division'))
        if c.div_mode == 'fork':
            if c.branch(self.n == 0):
                raise ZeroDivisionError('float division by zero')
        else:
            c.assume(nz)
        if c.known_pos(self.n):
            return SR(self.den, self.n)
        if c.div_mode == 'fork' or _small(self.n):
            if c.branch(self.n > 0):
                return SR(self.den, self.n)
            return SR(_neg(self.den), _neg(self.n))
        # sign unknown and the term is large: 1/(n/d) = n*d / n^2, denominator positive, no query
        return SR(_mul(self.n, self.den), _mul(self.n, self.n))

    __add__, __radd__ = _binop('add', _op.add)
    __sub__, __rsub__ = _binop('sub', _op.sub)
    __mul__, __rmul__ = _binop('mul', _op.mul)
    __truediv__, __rtruediv__ = _binop('truediv', _op.truediv)

    def __neg__(self):
        return SR(_neg(self.n), self.d)

    def __pos__(self):
        return self

    def __abs__(self):
        return SR(z3.If(self.n >= 0, self.n, -self.n), self.d)

    def __pow__(self, e):
        if isinstance(e, (float, np.floating)) and float(e).is_integer():
            e = int(e)
        if isinstance(e, (int, np.integer)):
            e = int(e)
            if e == 0:
                return 1.0
            base = self if e > 0 else self.inv()
            r = base
            for _ in range(abs(e) - 1):
                r = r * base
            return r
        if e == 0.5:
            return self.sqrt()
        return ufn('pow', self, e)

    def __rpow__(self, b):
        if isinstance(b, (float, np.floating)) and float(b) == math.e:
            return self.exp()
        return ufn('pow', b, self)

    # -- comparisons ------------------------------------------------------
    def _cmp(self, o, rel):
        b = self._coerce(o)
        if b is None:
            if isinstance(o, np.ndarray):
                return _bool_array(_broadcast(lambda x, y: rel_apply(rel, x, y), o, self, False))
            return NotImplemented
        l = _mul(self.n, b.den)
        r = _mul(b.n, self.den)
        return SB(rel(l, r))

    def __eq__(self, o):
        if o is None:
            return False
        if isinstance(o, SC) or is_cnum(o):
            return SC.lift(self) == o
        r = self._cmp(o, _op.eq)
        return False if r is NotImplemented else r

    def __ne__(self, o):
        if o is None:
            return True
        if isinstance(o, SC) or is_cnum(o):
            return SC.lift(self) != o
        r = self._cmp(o, _op.ne)
        return True if r is NotImplemented else r

    def __lt__(self, o):
        return self._cmp(o, _op.lt)

    def __le__(self, o):
        return self._cmp(o, _op.le)

    def __gt__(self, o):
        return self._cmp(o, _op.gt)

    def __ge__(self, o):
        return self._cmp(o, _op.ge)

    __hash__ = _Num.__hash__

    def __bool__(self):
        return ctx().branch(self.n != 0)

    # -- complex protocol ---------------------------------------------------
    @property
    def real(self):
        return self

    @property
    def imag(self):
        return 0.0

    def conjugate(self):
        return self
    conj = conjugate

    # -- functions ----------------------------------------------------------
    def sqrt(self):
        c = ctx()
        k = self.const()
        if k is not None and k >= 0:
            s = math.isqrt(k.numerator) , math.isqrt(k.denominator)
            if s[0] ** 2 == k.numerator and s[1] ** 2 == k.denominator:
                return SR(RV(Fraction(s[0], s[1])))
        key = ('sqrt',) + _ids(c, self.n, self.d)
        memo = c.__dict__.setdefault('memo', {})
        if key in memo:
            return memo[key]
        c.side.append((self.n >= 0, 'sqrt of negative'))
        # uninterpreted function (congruence: equal arguments give equal roots) + defining axioms
        r = ufn('sqrt', self) if c.sqrt_mode.startswith('uf') else SR(c.fresh('sqrt'))
        y = r.n
        if c.sqrt_mode != 'uf-free' and ('ax',) + _ids(c, y) not in memo:
            memo[('ax',) + _ids(c, y)] = True
            c.axiom(y >= 0)
            c.axiom(_mul(_mul(y, y), self.den) == self.n)
        memo[key] = r
        return r

    def log(self):
        ctx().side.append((self.n > 0, 'log of non-positive'))
        return ufn('log', self)

    def exp(self):
        return ufn('exp', self)

    def cos(self):
        return _circle(self)[0]

    def sin(self):
        return _circle(self)[1]

    def __repr__(self):
        if self.d is None:
            return 'SR(%s)' % self.n
        return 'SR(%s / %s)' % (self.n, self.d)

    def term(self):
        """A single z3 term (uses z3 division; for display / evaluation only)."""
        return self.n if self.d is None else self.n / self.d


def rel_apply(rel, a, b):
    return rel(a, b)


def _bool_array(a):
    """comparison of a symbolic scalar with an array: numpy semantics for object arrays is a real bool array
    (each element decided through bool(), i.e. a fork per undecided element)"""
    out = np.empty(a.shape, dtype=bool)
    fi, fo = a.reshape(-1), out.reshape(-1)
    for i in range(fi.shape[0]):
        fo[i] = bool(fi[i])
    return out


# --------------------------------------------------------------------------
# uninterpreted functions
# --------------------------------------------------------------------------

_ufs = {}


def _uf(name, arity):
    k = (name, arity)
    if k not in _ufs:
        _ufs[k] = z3.Function('uf_' + name, *([z3.RealSort()] * (arity + 1)))
    return _ufs[k]


def _flat_args(args):
    """Real z3 argument terms for an uninterpreted function.  A quotient n/d is passed as the
    PAIR (n, d): congruence then needs n and d equal separately (sound for `unsat`; a spurious
    `sat` that only differs by a common factor is filtered by the concrete replay)."""
    out = []
    for a in args:
        if isinstance(a, SC):
            if a.dr is None:
                out.extend([SR(a.nr), SR(a.ni)])
            else:
                out.extend([SR(a.nr), SR(a.ni), SR(a.dr), SR(a.di)])
        elif is_cnum(a):
            out.extend([a.real, a.imag])
        else:
            out.append(a)
    res = []
    pat = ''
    for a in out:
        a = SR.lift(a)
        if a.d is None:
            res.append(a.n)
            pat += 'n'
        else:
            res.extend([a.n, a.d])
            pat += 'q'
    return res, pat


def ufn(name, *args):
    """Real-valued uninterpreted function of real/complex arguments."""
    fa, pat = _flat_args(args)
    return SR(_uf(name + ('' if 'q' not in pat else '_' + pat), len(fa))(*fa))


def ufn_c(name, *args):
    """Complex-valued uninterpreted function."""
    fa, pat = _flat_args(args)
    sfx = '' if 'q' not in pat else '_' + pat
    return SC(SR(_uf(name + '_re' + sfx, len(fa))(*fa)), SR(_uf(name + '_im' + sfx, len(fa))(*fa)))


def _circle(a):
    """cos/sin of a symbolic angle: two fresh reals c, s with c^2 + s^2 = 1 (one pair per distinct
    angle term; angles that differ from a known one by a concrete multiple of 2*pi share its pair)."""
    c = ctx()
    memo = c.__dict__.setdefault('memo', {})
    a = SR.lift(a)
    key = ('circ',) + _ids(c, a.n, a.d)
    if key not in memo:
        k = a.const()
        if k is not None:
            memo[key] = (math.cos(float(k)), math.sin(float(k)))
        else:
            known = c.__dict__.setdefault('circ_known', [])
            for b, pair in known:
                d = z3.simplify((a - b).term())
                if z3.is_rational_value(d):
                    dv = d.numerator_as_long() / d.denominator_as_long()
                    q = dv / (2 * math.pi)
                    if abs(q - round(q)) < 1e-9:
                        memo[key] = pair
                        break
            else:
                if CIRCLE_MODE == 'uf':
                    # congruent in the angle: provably equal angle terms share cos and sin
                    cs, sn = ufn('cos', a).n, ufn('sin', a).n
                else:
                    cs, sn = c.fresh('cos'), c.fresh('sin')
                c.axiom(cs * cs + sn * sn == 1)
                c.axiom(z3.And(cs >= -1, cs <= 1, sn >= -1, sn <= 1))
                memo[key] = (SR(cs), SR(sn))
                known.append((a, memo[key]))
    return memo[key]


# --------------------------------------------------------------------------
# SC: symbolic complex
# --------------------------------------------------------------------------

class SC(_Num):
    """Symbolic complex = (nr + j ni) / (dr + j di).

    The denominator is a *complex* polynomial (None = 1), so chains of complex
    divisions (solve, then V/I) never square magnitudes; real and imaginary
    parts are only formed when the code asks for them."""
    __slots__ = ('nr', 'ni', 'dr', 'di', '_re', '_im')

    def __init__(self, re, im, _raw=None):
        self._re = self._im = None
        if _raw is not None:
            self.nr, self.ni, self.dr, self.di = _raw
            return
        re = SR.lift(re)
        im = SR.lift(im)
        if re.d is None and im.d is None:
            self.nr, self.ni, self.dr, self.di = re.n, im.n, None, None
        elif re.d is not None and im.d is not None and re.d.eq(im.d):
            self.nr, self.ni, self.dr, self.di = re.n, im.n, re.d, _ZERO
        else:
            self.nr = _mul(re.n, im.den)
            self.ni = _mul(im.n, re.den)
            self.dr = _mul(re.den, im.den)
            self.di = _ZERO

    @staticmethod
    def raw(nr, ni, dr=None, di=None):
        if dr is not None and di is not None and _is_val(di, 0) and _is_val(dr, 1):
            dr = di = None
        return SC(None, None, _raw=(nr, ni, dr, di))

    @staticmethod
    def var(name):
        return SC(SR.var(name + '_re'), SR.var(name + '_im'))

    @staticmethod
    def lift(x):
        if isinstance(x, SC):
            return x
        if is_cnum(x):
            return SC(float(x.real), float(x.imag))
        if isinstance(x, (SR, SI)) or is_num(x):
            return SC(x, 0)
        return None

    # -- parts ----------------------------------------------------------------
    def _parts(self):
        if self._re is None:
            if self.dr is None:
                self._re, self._im = SR(self.nr), SR(self.ni)
            elif _is_val(self.di, 0):
                # real denominator: keep its sign knowledge (positive by construction)
                self._re, self._im = SR(self.nr, self.dr), SR(self.ni, self.dr)
            else:
                # (nr + j ni)(dr - j di) / (dr^2 + di^2)
                m2 = _add(_mul(self.dr, self.dr), _mul(self.di, self.di))
                self._re = SR(_add(_mul(self.nr, self.dr), _mul(self.ni, self.di)), m2)
                self._im = SR(_add(_mul(self.ni, self.dr), _neg(_mul(self.nr, self.di))), m2)
        return self._re, self._im

    @property
    def re(self):
        return self._parts()[0]

    @property
    def im(self):
        return self._parts()[1]

    real = re
    imag = im

    def _den(self):
        if self.dr is None:
            return _ONE, _ZERO
        return self.dr, self.di

    def _same_den(self, b):
        if self.dr is None and b.dr is None:
            return True
        if self.dr is None or b.dr is None:
            return False
        return self.dr.eq(b.dr) and self.di.eq(b.di)

    def conjugate(self):
        if self.dr is None:
            return SC.raw(self.nr, _neg(self.ni))
        return SC.raw(self.nr, _neg(self.ni), self.dr, _neg(self.di))
    conj = conjugate

    # -- arithmetic -------------------------------------------------------------
    @staticmethod
    def _cm(ar, ai, br, bi):
        """complex product of raw terms"""
        return (_add(_mul(ar, br), _neg(_mul(ai, bi))), _add(_mul(ar, bi), _mul(ai, br)))

    def _add(self, o, swap):
        b = SC.lift(o)
        if b is None:
            return NotImplemented
        a = self
        if a._same_den(b):
            return SC.raw(_add(a.nr, b.nr), _add(a.ni, b.ni), a.dr, a.di)
        adr, adi = a._den()
        bdr, bdi = b._den()
        x = SC._cm(a.nr, a.ni, bdr, bdi)
        y = SC._cm(b.nr, b.ni, adr, adi)
        d = SC._cm(adr, adi, bdr, bdi)
        return SC.raw(_add(x[0], y[0]), _add(x[1], y[1]), d[0], d[1])

    def _sub(self, o, swap):
        b = SC.lift(o)
        if b is None:
            return NotImplemented
        a = self
        if swap:
            a, b = b, a
        return a._add(-b, False)

    def _mul(self, o, swap):
        b = SC.lift(o)
        if b is None:
            return NotImplemented
        a = self
        n = SC._cm(a.nr, a.ni, b.nr, b.ni)
        if a.dr is None and b.dr is None:
            return SC.raw(n[0], n[1])
        adr, adi = a._den()
        bdr, bdi = b._den()
        d = SC._cm(adr, adi, bdr, bdi)
        return SC.raw(n[0], n[1], d[0], d[1])

    def inv(self):
        c = ctx()
        nz = z3.Or(self.nr != 0, self.ni != 0)
        c.side.append((nz, 'complex division'))
        if c.div_mode == 'fork':
            if c.branch(z3.Not(nz)):
                raise ZeroDivisionError('complex division by zero')
        else:
            c.assume(nz)
        dr, di = self._den()
        return SC.raw(dr, di, self.nr, self.ni)

    def _truediv(self, o, swap):
        if not swap and is_num(o) and not isinstance(o, (bool, np.bool_)):
            f = _frac(o)
            if f == 0:
                raise ZeroDivisionError('complex division by zero')
            return self._mul(1 / f, False)      # exact: division by a concrete real is a rational factor
        b = SC.lift(o)
        if b is None:
            return NotImplemented
        a = self
        if swap:
            a, b = b, a
        return a._mul(b.inv(), False)

    __add__, __radd__ = _binop('add', _op.add)
    __sub__, __rsub__ = _binop('sub', _op.sub)
    __mul__, __rmul__ = _binop('mul', _op.mul)
    __truediv__, __rtruediv__ = _binop('truediv', _op.truediv)

    def __neg__(self):
        return SC.raw(_neg(self.nr), _neg(self.ni), self.dr, self.di)

    def __pos__(self):
        return self

    def abs2(self):
        re, im = self._parts()
        return re * re + im * im

    def __abs__(self):
        if ctx().sqrt_mode == 'uf-free':
            return ufn('cabs', self)
        return SR.lift(self.abs2()).sqrt()

    def __pow__(self, e):
        if isinstance(e, (float, np.floating)) and float(e).is_integer():
            e = int(e)
        if isinstance(e, (int, np.integer)):
            e = int(e)
            if e == 0:
                return 1.0
            base = self if e > 0 else self.inv()
            r = base
            for _ in range(abs(e) - 1):
                r = r * base
            return r
        if e == 0.5:
            return self.sqrt()
        return ufn_c('cpow', self, e)

    def __rpow__(self, b):
        if isinstance(b, (float, np.floating)) and float(b) == math.e:
            return self.exp()
        return ufn_c('cpow', b, self)

    def eq_t(self, b):
        """z3 Bool: self == b (cross-multiplied in complex arithmetic)."""
        a = self
        if a._same_den(b):
            return z3.And(a.nr == b.nr, a.ni == b.ni)
        adr, adi = a._den()
        bdr, bdi = b._den()
        x = SC._cm(a.nr, a.ni, bdr, bdi)
        y = SC._cm(b.nr, b.ni, adr, adi)
        return z3.And(x[0] == y[0], x[1] == y[1])

    def __eq__(self, o):
        if o is None:
            return False
        b = SC.lift(o)
        if b is None:
            return False
        return SB(self.eq_t(b))

    def __ne__(self, o):
        r = self.__eq__(o)
        if isinstance(r, SB):
            return ~r
        return not r

    __hash__ = _Num.__hash__

    def __bool__(self):
        return ctx().branch(z3.Or(self.nr != 0, self.ni != 0))

    def sqrt(self):
        """Principal square root by its defining equations."""
        c = ctx()
        memo = c.__dict__.setdefault('memo', {})
        key = ('csqrt',) + _ids(c, self.nr, self.ni, self.dr, self.di)
        if key in memo:
            return memo[key]
        r = ufn_c('csqrt', self) if c.sqrt_mode.startswith('uf') else SC.raw(c.fresh('csqrt_p'), c.fresh('csqrt_q'))
        p, q = r.nr, r.ni
        if c.sqrt_mode != 'uf-free' and ('ax',) + _ids(c, p) not in memo:
            memo[('ax',) + _ids(c, p)] = True
            c.axiom((r * r).eq_t(self))
            c.axiom(z3.Or(p > 0, z3.And(p == 0, q >= 0)))
        memo[key] = r
        return r

    def exp(self):
        # e^(a+jb) = e^a (cos b + j sin b)
        m = self.re.exp() if not _is_zero(self.re) else 1.0
        cs, sn = _circle(self.im)
        return SC(m * cs, m * sn)

    def log(self):
        return ufn_c('clog', self)

    def __repr__(self):
        if self.dr is None:
            return 'SC(%s + j %s)' % (self.nr, self.ni)
        return 'SC((%s + j %s)/(%s + j %s))' % (self.nr, self.ni, self.dr, self.di)


def _is_zero(x):
    if isinstance(x, SR):
        k = x.const()
        return k is not None and k == 0
    return is_num(x) and x == 0


# --------------------------------------------------------------------------
# SI: symbolic integer
# --------------------------------------------------------------------------

class SI(_Num):
    __slots__ = ('t',)

    def __init__(self, t):
        self.t = t

    @staticmethod
    def var(name):
        return SI(z3.Int(name))

    @staticmethod
    def lift(x):
        if isinstance(x, SI):
            return x
        return SI(z3.IntVal(int(x)))

    def _c(self, o):
        if isinstance(o, SI):
            return o.t
        if isinstance(o, (bool, np.bool_)):
            return z3.IntVal(int(o))
        if isinstance(o, (int, np.integer)):
            return z3.IntVal(int(o))
        return None

    def _arith(self, o, swap, fn, name):
        t = self._c(o)
        if t is None:
            if isinstance(o, (SR, SC)) or is_num(o) or is_cnum(o):
                return getattr(SR.lift(self), '_' + name)(o, swap)
            return NotImplemented
        return SI(fn(t, self.t) if swap else fn(self.t, t))

    def _add(self, o, swap):
        return self._arith(o, swap, _op.add, 'add')

    def _sub(self, o, swap):
        return self._arith(o, swap, _op.sub, 'sub')

    def _mul(self, o, swap):
        return self._arith(o, swap, _op.mul, 'mul')

    def _truediv(self, o, swap):
        return SR.lift(self)._truediv(o, swap)

    __add__, __radd__ = _binop('add', _op.add)
    __sub__, __rsub__ = _binop('sub', _op.sub)
    __mul__, __rmul__ = _binop('mul', _op.mul)
    __truediv__, __rtruediv__ = _binop('truediv', _op.truediv)

    def __neg__(self):
        return SI(-self.t)

    def __abs__(self):
        return SI(z3.If(self.t >= 0, self.t, -self.t))

    def _cmp(self, o, rel):
        t = self._c(o)
        if t is None:
            if isinstance(o, SR) or is_num(o):
                return SR.lift(self)._cmp(o, rel)
            return NotImplemented
        return SB(rel(self.t, t))

    def __eq__(self, o):
        if o is None:
            return False
        r = self._cmp(o, _op.eq)
        return False if r is NotImplemented else r

    def __ne__(self, o):
        if o is None:
            return True
        r = self._cmp(o, _op.ne)
        return True if r is NotImplemented else r

    def __lt__(self, o):
        return self._cmp(o, _op.lt)

    def __le__(self, o):
        return self._cmp(o, _op.le)

    def __gt__(self, o):
        return self._cmp(o, _op.gt)

    def __ge__(self, o):
        return self._cmp(o, _op.ge)

    __hash__ = _Num.__hash__

    def __bool__(self):
        return ctx().branch(self.t != 0)

    def __index__(self):
        return self.concretize()

    def concretize(self):
        """Fork over the feasible values (DFS): returns a Python int on each path."""
        c = ctx()
        t = z3.simplify(self.t)
        if z3.is_int_value(t):
            return t.as_long()
        while True:
            v = c.next_tag()
            if v is None:
                if c.check() != z3.sat:
                    raise PathAbort('infeasible or unknown while concretising')
                m = c.solver.model()
                v = m.eval(t, model_completion=True).as_long()
            if c.branch(t == v, tag=v):
                return v

    def __repr__(self):
        return 'SI(%s)' % self.t


_SYM = (SR, SC, SI, SB)


# --------------------------------------------------------------------------
# If-term helpers used by the builtin shadows
# --------------------------------------------------------------------------

def ite(cond, a, b):
    """If-term over SR (no fork)."""
    cond = _as_bool(cond)
    if isinstance(a, SI) or isinstance(b, SI):
        if not isinstance(a, (SR,)) and not isinstance(b, (SR,)) and \
           not isinstance(a, (float, np.floating)) and not isinstance(b, (float, np.floating)):
            ta = a.t if isinstance(a, SI) else z3.IntVal(int(a))
            tb = b.t if isinstance(b, SI) else z3.IntVal(int(b))
            return SI(z3.If(cond, ta, tb))
    a = SR.lift(a)
    b = SR.lift(b)
    if a.d is None and b.d is None:
        return SR(z3.If(cond, a.n, b.n))
    if a.d is not None and b.d is not None and a.d.eq(b.d):
        return SR(z3.If(cond, a.n, b.n), a.d)
    return SR(z3.If(cond, _mul(a.n, b.den), _mul(b.n, a.den)), _mul(a.den, b.den))


def smin(*args):
    if len(args) == 1:
        args = list(args[0])
    if not any(is_sym(a) for a in args):
        return min(args)
    r = args[0]
    for a in args[1:]:
        r = ite(a < r, a, r)
    return r


def smax(*args):
    if len(args) == 1:
        args = list(args[0])
    if not any(is_sym(a) for a in args):
        return max(args)
    r = args[0]
    for a in args[1:]:
        r = ite(a > r, a, r)
    return r


# --------------------------------------------------------------------------
# model evaluation (for replays)
# --------------------------------------------------------------------------

def model_value(m, x):
    """Evaluate a symbolic value (or number) under a z3 model -> Python number."""
    if isinstance(x, SR):
        n = m.eval(x.n, model_completion=True)
        d = m.eval(x.den, model_completion=True)
        return _alg(n) / _alg(d)
    if isinstance(x, SC):
        return complex(model_value(m, x.re), model_value(m, x.im))
    if isinstance(x, SI):
        return m.eval(x.t, model_completion=True).as_long()
    if isinstance(x, SB):
        return z3.is_true(m.eval(x.t, model_completion=True))
    return x


def _alg(v):
    if z3.is_rational_value(v):
        return v.numerator_as_long() / v.denominator_as_long()
    if z3.is_algebraic_value(v):
        a = v.approx(20)
        return a.numerator_as_long() / a.denominator_as_long()
    if z3.is_int_value(v):
        return float(v.as_long())
    raise HarnessError('cannot evaluate %s' % v)


# --------------------------------------------------------------------------
# assertion helpers
# --------------------------------------------------------------------------

def eq_term(a, b):
    """z3 Bool: a == b for SR/SC/numbers (cross-multiplied)."""
    if isinstance(a, SC) or isinstance(b, SC) or is_cnum(a) or is_cnum(b):
        a, b = SC.lift(a), SC.lift(b)
        return a.eq_t(b)
    r = (SR.lift(a) == SR.lift(b))
    return r.t


def close_term(a, b, rel, scale=None, ab=0):
    """z3 Bool: |a-b|^2 <= (rel*scale + ab)^2 with scale = |b| by default (complex or real)."""
    a, b = SC.lift(a), SC.lift(b)
    d = a - b
    d2 = SR.lift(d.abs2())
    if scale is None:
        s2 = SR.lift(b.abs2()) * (Fraction(rel) ** 2)
    else:
        s2 = SR.lift(scale) * SR.lift(scale) * (Fraction(rel) ** 2)
    if ab:
        s2 = s2 + Fraction(ab) ** 2
    return (d2 <= s2).t
