"""symx.psistub -- the psi-atom stub (DESIGN 2.6).

The real `Mininec.psi` keeps running (radius / segment-length / i6 selection by the sign of
`scale`, the exact-kernel criterion t <= 1.1, the small-radius closed forms, the scaling with
s4 and i6): only the numerical integration `Mininec.fast_quad` is replaced.  Every call
`fast_quad(0, ub, (vec2, vecv, k, r, exact), n)` returns, per element, w * A where A is a complex
*atom*: an unknown that stands for

      (1/w) * (1/ub) * integral_0^ub  K(vec2 + t (vecv - vec2); r, exact) dt       (K: the kernel)

and is identified by nothing but what that integral mathematically depends on: the inner
products of the two relative end vectors (so rotations, reflections and translations of the pair
(observer, source segment) map to the same atom), the radius, the exact-kernel flag and the
upper bound, all in electrical units (multiplied with w = 2 pi / lambda), so that a scaled antenna
at the scaled frequency maps to the same atoms as well.  For ub == 1 the integral does not depend
on the orientation of the segment and the key is unordered; k < 0 swaps the ends as
integral_i2_i3 does.  The Gauss order n the code asks for is recorded per call but is not part
of the identity (it is a property of the numerical method, not of the integral).

Two atoms with keys closer than 1e-9 relative are the same atom (the same integral computed from
coordinates rounded differently).
"""
import math
import numpy as np
import z3

from . import core
from .core import SR, SC, HarnessError

REL = 1e-9


class AtomTable:
    def __init__(self, prefix='psi'):
        self.prefix = prefix
        self.keys = np.zeros((0, 6))
        self.atoms = []
        self.calls = []            # (key index, n, t-ish) per fast_quad element, for the order rule
        self.values = {}           # atom index -> complex (true value, filled on demand by a check)
        self.args = []             # per atom: concrete (vec2, vecv, k, r, exact, ub, w) of first use

    def lookup(self, key, args=None):
        key = np.asarray(key, dtype=float)
        if len(self.atoms):
            sc = np.maximum(np.abs(self.keys), np.abs(key)) * REL + 1e-14
            hit = np.all(np.abs(self.keys - key) <= sc, axis=1)
            idx = np.nonzero(hit)[0]
            if len(idx):
                return int(idx[0])
        self.keys = np.vstack([self.keys, key])
        n = len(self.atoms)
        self.atoms.append(SC(SR(z3.Real('%s%d_re' % (self.prefix, n))), SR(z3.Real('%s%d_im' % (self.prefix, n)))))
        self.args.append(args)
        return n

    def atom_for(self, a, b, k, r, exact, ub, w, args=None, thick=None):
        """a, b: relative end vectors (concrete), returns the atom index."""
        if k < 0:
            a, b = b, a
        aa, bb, ab = float(a @ a) * w * w, float(b @ b) * w * w, float(a @ b) * w * w
        if ub == 1 and aa > bb:
            aa, bb = bb, aa
        # thick: the kernel uses R^2 = rho^2 + a^2 only above the small-radius limit (1e-4 wavelength); which side the radius is on is part
        # of what the integral is (None: derived from r*w against 2 pi 1e-4, i.e. from the CURRENT wavelength)
        if thick is None:
            thick = float(r) * w > 2 * math.pi * 1e-4
        return self.lookup([aa, bb, ab, float(r) * w, (1.0 if exact else 0.0) + (2.0 if thick else 0.0), float(ub)], args)

    def box(self, bound=1.0):
        """z3 constraints: every atom component within [-bound, bound]."""
        cs = []
        B = core.RV(bound)
        for a in self.atoms:
            cs.append(z3.And(a.nr >= -B, a.nr <= B, a.ni >= -B, a.ni <= B))
        return cs


def install(M, table, record_order=True):
    """Replace Mininec.fast_quad of the shadow module M (sh.mininec) by the atom stub."""
    def fast_quad(self, a, b, args, n):
        vec2, vecv, k, r, exact = args
        if a != 0:
            raise HarnessError('fast_quad with lower bound %r' % (a,))
        w = float(self.w)
        v2 = np.atleast_2d(np.asarray(vec2, dtype=float))
        vv = np.atleast_2d(np.asarray(vecv, dtype=float))
        rr = np.broadcast_to(np.atleast_1d(np.asarray(r, dtype=float)), (len(v2),))
        ex = np.broadcast_to(np.atleast_1d(np.asarray(exact, dtype=bool)), (len(v2),))
        out = np.empty(len(v2), dtype=object)
        for i in range(len(v2)):
            xk = bool(ex[i]) and rr[i] > float(self.srm)
            ai = table.atom_for(v2[i], vv[i], k, rr[i], xk, float(b), w,
                                args=(v2[i].copy(), vv[i].copy(), k, float(rr[i]), bool(ex[i]), float(b), w),
                                thick=bool(rr[i] > float(self.srm)))          # as integral_i2_i3 would decide it now
            if record_order:
                table.calls.append((ai, int(n)))
            out[i] = table.atoms[ai] * w
        if np.ndim(vecv) == 1:
            return out[0]
        return out
    M.Mininec.fast_quad = fast_quad


def true_values(mm, model, table):
    """Numeric value of every atom: the real (unshadowed) fast_quad of `model` on the recorded
    arguments with Gauss order 8 ... used only by stage-2 / diagnostics, never by stage 1."""
    vals = []
    for args in table.args:
        v2, vv, k, r, ex, ub, w = args
        q = mm.Mininec.fast_quad(model, 0, ub, (v2, vv, k, r, ex), 8)
        vals.append(complex(np.atleast_1d(q)[0]) / w)
    return vals
