"""symx.npf -- the numpy facade bound as `np` inside the shadow modules (DESIGN 2.3).

Everything not listed here is forwarded to numpy unchanged.  With
`object_mode` off the facade behaves exactly like numpy (used for the
concrete byte-identity validation of the shadow); with it on,
zeros/ones(dtype=float|complex) create object arrays so symbolic values can be
stored into preallocated results.
"""
import math
import numpy as _np
import scipy.special as _sps
import z3

from . import core
from .core import SR, SC, SI, SB, is_sym, HarnessError


class _State:
    object_mode = False
    norm_mode = 'exact'      # 'exact' | 'abstract'
    solve_mode = 'gauss'     # 'gauss' | 'unknowns'
    arange_hook = None
    decade_log = False
    angle_axioms = False
    calls = {}


state = _State()


class object_arrays:
    def __init__(self, on=True):
        self.on = on

    def __enter__(self):
        self.prev = state.object_mode
        state.object_mode = self.on

    def __exit__(self, *a):
        state.object_mode = self.prev


def _count(name):
    state.calls[name] = state.calls.get(name, 0) + 1


def _has_sym(x):
    if is_sym(x):
        return True
    if isinstance(x, _np.ndarray):
        if x.dtype != object:
            return False
        return any(is_sym(e) for e in x.reshape(-1))
    if isinstance(x, (list, tuple)):
        return any(_has_sym(e) for e in x)
    return False


def _is_floaty(dtype):
    if dtype is None:
        return True
    n = getattr(dtype, '__sx_builtin__', None)
    if n is not None:
        return n in (float, complex)
    try:
        return _np.dtype(dtype).kind in 'fc'
    except TypeError:
        return False


def _xl_dtype(dtype):
    n = getattr(dtype, '__sx_builtin__', None)
    return n if n is not None else dtype


def _filled(shape, val, dtype):
    if state.object_mode and _is_floaty(dtype):
        a = _np.empty(shape, dtype=object)
        a.fill(val)
        return a
    return None


def log_dispatch(x, *a, **kw):
    if state.decade_log and isinstance(x, SR):
        from . import decimal
        return decimal.LogVal(x)
    return log(x, *a, **kw)


def zeros(shape, dtype=None, **kw):
    a = _filled(shape, 0.0, dtype)
    if a is not None:
        return a
    return _np.zeros(shape, dtype=_xl_dtype(dtype) or float, **kw)


def ones(shape, dtype=None, **kw):
    a = _filled(shape, 1.0, dtype)
    if a is not None:
        return a
    return _np.ones(shape, dtype=_xl_dtype(dtype) or float, **kw)


def eye(n, m=None, k=0, dtype=None, **kw):
    a = _np.eye(n, m, k, dtype=_xl_dtype(dtype) or float, **kw)
    if state.object_mode and _is_floaty(dtype):
        return a.astype(object)          # symbolic entries may be assigned into it afterwards
    return a


def identity(n, dtype=None):
    return eye(n, dtype=dtype)


def full(shape, fill_value, dtype=None, **kw):
    if state.object_mode and (_is_floaty(dtype) and not isinstance(fill_value, (bool, int)) or _has_sym(fill_value)):
        a = _np.empty(shape, dtype=object)
        a.fill(fill_value)
        return a
    return _np.full(shape, fill_value, dtype=_xl_dtype(dtype), **kw)


def array(obj, dtype=None, **kw):
    if dtype is not None:
        dtype = _xl_dtype(dtype)
        if _has_sym(obj):
            if _is_floaty(dtype):
                dtype = object
    return _np.array(obj, dtype=dtype, **kw)


def _ew(name, npfunc, pyfunc=None):
    """Element-wise dispatch: symbolic method, numpy otherwise."""
    def one(x):
        if is_sym(x):
            return getattr(x, name)()
        if pyfunc is not None:
            return pyfunc(x)
        return npfunc(x)

    def f(x, *a, **kw):
        if is_sym(x):
            return getattr(x, name)()
        if isinstance(x, _np.ndarray) and x.dtype == object:
            out = _np.empty(x.shape, dtype=object)
            fi = x.reshape(-1)
            fo = out.reshape(-1)
            for i in range(fi.shape[0]):
                fo[i] = one(fi[i])
            return out
        return npfunc(x, *a, **kw)
    f.__name__ = name
    return f


def _sr_abs(x):
    return abs(x)


def _angle1(x):
    if isinstance(x, SC) and state.angle_axioms:
        # angle with its defining relation: x = |x| (cos A + j sin A)
        A = core.ufn('angle', x.re, x.im)
        c = core.ctx()
        memo = c.__dict__.setdefault('memo', {})
        key = ('angle-ax',) + core._ids(c, A.n)
        if key not in memo:
            memo[key] = True
            cs, sn = core._circle(A)
            m = abs(x)
            c.axiom((x.re == m * cs).t)
            c.axiom((x.im == m * sn).t)
            c.axiom(z3.And(A.n > core.RV(-3.1415926535897936), A.n <= core.RV(3.1415926535897936)))
        return A
    if isinstance(x, SC):
        return core.ufn('angle', x.re, x.im)
    if isinstance(x, SR):
        return core.ufn('angle', x, 0.0)
    return _np.angle(x)


def angle(x, *a, **kw):
    if is_sym(x):
        return _angle1(x)
    if isinstance(x, _np.ndarray) and x.dtype == object:
        out = _np.empty(x.shape, dtype=object)
        fi, fo = x.reshape(-1), out.reshape(-1)
        for i in range(fi.shape[0]):
            fo[i] = _angle1(fi[i])
        return out
    return _np.angle(x, *a, **kw)


def _abs(x, *a, **kw):
    if is_sym(x):
        return abs(x)
    if isinstance(x, _np.ndarray) and x.dtype == object:
        out = _np.empty(x.shape, dtype=object)
        fi, fo = x.reshape(-1), out.reshape(-1)
        for i in range(fi.shape[0]):
            fo[i] = abs(fi[i])
        return out
    return _np.abs(x, *a, **kw)


def conj(x, *a, **kw):
    if is_sym(x):
        return x.conjugate()
    if isinstance(x, _np.ndarray) and x.dtype == object:
        out = _np.empty(x.shape, dtype=object)
        fi, fo = x.reshape(-1), out.reshape(-1)
        for i in range(fi.shape[0]):
            e = fi[i]
            fo[i] = e.conjugate()
        return out
    return _np.conj(x, *a, **kw)


def sign(x):
    if isinstance(x, SR):
        return SR(z3.If(x.n > 0, core.RV(1), z3.If(x.n < 0, core.RV(-1), core.RV(0))))
    if isinstance(x, SI):
        return SI(z3.If(x.t > 0, z3.IntVal(1), z3.If(x.t < 0, z3.IntVal(-1), z3.IntVal(0))))
    if isinstance(x, _np.ndarray) and x.dtype == object:
        out = _np.empty(x.shape, dtype=object)
        fi, fo = x.reshape(-1), out.reshape(-1)
        for i in range(fi.shape[0]):
            fo[i] = sign(fi[i])
        return out
    return _np.sign(x)


def isfinite(x, *a, **kw):
    """symbolic reals / complex numbers are finite by construction"""
    if is_sym(x):
        return True
    if isinstance(x, _np.ndarray) and x.dtype == object:
        out = _np.empty(x.shape, dtype=bool)
        fi, fo = x.reshape(-1), out.reshape(-1)
        for i in range(fi.shape[0]):
            fo[i] = True if is_sym(fi[i]) else bool(_np.isfinite(fi[i]))
        return out
    return _np.isfinite(x, *a, **kw)


def isscalar(x):
    if is_sym(x):
        return True
    return _np.isscalar(x)


def copy(x, *a, **kw):
    if is_sym(x):
        return x
    return _np.copy(x, *a, **kw)


def real_arange(*args, **kw):
    """np.arange(start, stop, step) on symbolic REALS.  numpy sizes the result as ceil((stop - start)/step) in double
    arithmetic; when that quotient is an integer k in exact arithmetic, rounding can make it k or k+1: both lengths are
    explored (a fork), so code that relies on the length shows its extra element on one path.  Otherwise the exact ceiling
    is used when it is a constant."""
    if len(args) != 3:
        raise HarnessError('symbolic np.arange needs start, stop, step')
    start, stop, step = args
    q = (SR.lift(stop) - SR.lift(start)) / SR.lift(step)
    qc = None
    t = z3.simplify(q.n * 1) if q.d is None else None
    k = q.const()
    if k is None:
        # is the quotient a constant under the path condition?  try small integers
        c = core.ctx()
        for cand in range(0, 401):
            if c.check(z3.Not((q == cand).t)) == z3.unsat:
                k = cand
                break
    if k is None:
        raise HarnessError('np.arange with a symbolic, non-constant number of elements')
    from fractions import Fraction as _F
    k = _F(k)
    if k.denominator == 1:
        n = int(k)
        c = core.ctx()
        extra = SB(c.fresh('arange_rounds_up', 'bool'))
        if bool(extra):                       # free boolean: both outcomes are feasible -> two paths
            n += 1
    else:
        n = int(-(-k.numerator // k.denominator))
    out = _np.empty(max(n, 0), dtype=object)
    for i in range(max(n, 0)):
        out[i] = SR.lift(start) + SR.lift(step) * i
    return out


def arange(*args, **kw):
    if any(is_sym(a) for a in args) or state.arange_hook is not None:
        if state.arange_hook is None:
            if all(isinstance(a, (SR, SI, int, float, _np.floating, _np.integer)) for a in args):
                return real_arange(*args, **kw)
            raise HarnessError('np.arange with symbolic operands needs a hook')
        r = state.arange_hook(*args, **kw)
        if r is not NotImplemented:
            return r
    if 'dtype' in kw:
        kw['dtype'] = _xl_dtype(kw['dtype'])
    return _np.arange(*args, **kw)


def _boolify(x):
    """SB -> bool (this is where a path forks); object arrays with SB elements -> real bool arrays."""
    if isinstance(x, SB):
        return bool(x)
    if isinstance(x, _np.ndarray) and x.dtype == object:
        out = _np.empty(x.shape, dtype=bool)
        fi, fo = x.reshape(-1), out.reshape(-1)
        for i in range(fi.shape[0]):
            fo[i] = bool(fi[i])
        return out
    return x


class _LogicalUfunc:
    def __init__(self, uf):
        self._uf = uf

    def __call__(self, *args, **kw):
        return self._uf(*[_boolify(a) for a in args], **kw)

    def __getattr__(self, n):
        return getattr(self._uf, n)


logical_and = _LogicalUfunc(_np.logical_and)
logical_or = _LogicalUfunc(_np.logical_or)
logical_not = _LogicalUfunc(_np.logical_not)


# -- linalg ---------------------------------------------------------------------

class _Linalg:
    def __getattr__(self, n):
        return getattr(_np.linalg, n)

    @staticmethod
    def norm(x, ord=None, axis=None, **kw):
        if is_sym(x):
            return abs(x)
        if not (isinstance(x, _np.ndarray) and x.dtype == object) or not _has_sym(x):
            if isinstance(x, _np.ndarray) and x.dtype == object:
                x = x.astype(complex if any(isinstance(e, complex) for e in x.reshape(-1)) else float)
            return _np.linalg.norm(x, ord=ord, axis=axis, **kw)
        _count('norm')
        if state.norm_mode == 'abstract':
            return state.abstract_norm(x, axis)
        sq = x * conj(x) if any(isinstance(e, (SC, complex)) for e in x.reshape(-1)) else x * x
        s = _np.sum(sq, axis=axis)
        if isinstance(s, _np.ndarray):
            return sqrt(s)
        if isinstance(s, SC):
            s = s.re
        return s.sqrt() if is_sym(s) else math.sqrt(s)

    @staticmethod
    def solve(Z, b):
        if not _has_sym(Z) and not _has_sym(b):
            if isinstance(Z, _np.ndarray) and Z.dtype == object:
                Z = Z.astype(complex)
            if isinstance(b, _np.ndarray) and b.dtype == object:
                b = b.astype(complex)
            return _np.linalg.solve(Z, b)
        _count('solve')
        if state.solve_mode == 'unknowns':
            return solve_unknowns(Z, b)
        return solve_cramer(Z, b)


linalg = _Linalg()


def _det(M):
    n = len(M)
    if n == 1:
        return M[0][0]
    if n == 2:
        return M[0][0] * M[1][1] - M[0][1] * M[1][0]
    tot = 0.0
    for j in range(n):
        e = M[0][j]
        if core._is_zero(e) if not isinstance(e, SC) else False:
            continue
        minor = [[M[i][k] for k in range(n) if k != j] for i in range(1, n)]
        term = e * _det(minor)
        tot = tot + term if j % 2 == 0 else tot - term
    return tot


def solve_cramer(Z, b):
    """Exact solve over the symbolic field: x_i = det(Z_i)/det(Z) (one complex division each).

    Records det != 0 as an assumption of the path (non-singular system)."""
    n = len(b)
    M = [[Z[i][j] for j in range(n)] for i in range(n)]
    D = SC.lift(_det(M))
    c = core.ctx()
    c.assume(z3.Or(D.nr != 0, D.ni != 0))
    out = _np.empty(n, dtype=object)
    Dinv = D.inv()
    for i in range(n):
        Mi = [[(b[r] if k == i else M[r][k]) for k in range(n)] for r in range(n)]
        Ni = SC.lift(_det(Mi))
        out[i] = Ni * Dinv
    state.last_det = D
    return out


def solve_unknowns(Z, b):
    """Fresh unknown currents constrained by Z.I = b (exact in R)."""
    c = core.ctx()
    n = len(b)
    I = _np.empty(n, dtype=object)
    for i in range(n):
        I[i] = SC(SR(c.fresh('I%d_re' % i)), SR(c.fresh('I%d_im' % i)))
    for r in range(n):
        acc = 0.0
        for k in range(n):
            acc = acc + Z[r][k] * I[k]
        acc = SC.lift(acc)
        rhs = SC.lift(b[r])
        c.axiom(acc.eq_t(rhs))
    return I


# -- scipy.special stubs -------------------------------------------------------------

def _sps_wrap(name, fn):
    def one(*args):
        if any(is_sym(a) for a in args):
            if any(isinstance(a, SC) or core.is_cnum(a) for a in args):
                return core.ufn_c(name, *args)
            return core.ufn(name, *args)
        return fn(*args)

    def f(*args):
        arrs = [a for a in args if isinstance(a, _np.ndarray) and a.dtype == object]
        if arrs:
            shape = arrs[0].shape
            out = _np.empty(shape, dtype=object)
            fo = out.reshape(-1)
            flat = [a.reshape(-1) if isinstance(a, _np.ndarray) else None for a in args]
            for i in range(fo.shape[0]):
                fo[i] = one(*[(fl[i] if fl is not None else a) for fl, a in zip(flat, args)])
            return out
        if any(_has_sym(a) for a in args):
            return one(*args)
        return fn(*args)
    return f


ellipk = _sps_wrap('ellipk', _sps.ellipk)
jv = _sps_wrap('jv', _sps.jv)

sqrt = _ew('sqrt', _np.sqrt, lambda v: _np.sqrt(v))
log = _ew('log', _np.log, lambda v: _np.log(v))
exp = _ew('exp', _np.exp, lambda v: _np.exp(v))
cos = _ew('cos', _np.cos, lambda v: _np.cos(v))
sin = _ew('sin', _np.sin, lambda v: _np.sin(v))


class Facade:
    """The object bound to `np` in the shadow modules."""
    _over = dict(zeros=zeros, ones=ones, eye=eye, identity=identity, full=full, array=array, sqrt=sqrt, log=log_dispatch, exp=exp,
                 cos=cos, sin=sin, abs=_abs, absolute=_abs, angle=angle, conj=conj,
                 conjugate=conj, sign=sign, isscalar=isscalar, isfinite=isfinite, linalg=linalg,
                 copy=copy, arange=arange, logical_and=logical_and, logical_or=logical_or,
                 logical_not=logical_not)

    def __getattr__(self, n):
        o = Facade._over.get(n)
        if o is not None:
            return o
        return getattr(_np, n)


NP = Facade()
