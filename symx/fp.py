"""symx.fp -- IEEE double values backed by z3 Float64 terms (only where the property is about
rounding: C16 range lengths; the validation layer of C20)."""
import math
import numpy as np
import z3

from . import core
from .core import SB, ctx, HarnessError, _broadcast, _Num
import operator as _op

F64 = z3.Float64()
RNE = z3.RNE()


def fpval(x):
    return z3.FPVal(float(x), F64)


class SF(_Num):
    __slots__ = ('t',)

    def __init__(self, t):
        self.t = t

    @staticmethod
    def var(name):
        return SF(z3.FP(name, F64))

    @staticmethod
    def lift(x):
        if isinstance(x, SF):
            return x
        if isinstance(x, (int, float, np.integer, np.floating)):
            return SF(fpval(x))
        return None

    def _bin(self, o, swap, fn):
        if isinstance(o, np.ndarray):
            return NotImplemented
        b = SF.lift(o)
        if b is None:
            return NotImplemented
        a = self
        if swap:
            a, b = b, a
        return SF(fn(RNE, a.t, b.t))

    def _add(self, o, swap):
        return self._bin(o, swap, z3.fpAdd)

    def _sub(self, o, swap):
        return self._bin(o, swap, z3.fpSub)

    def _mul(self, o, swap):
        return self._bin(o, swap, z3.fpMul)

    def _truediv(self, o, swap):
        return self._bin(o, swap, z3.fpDiv)

    __add__, __radd__ = core._binop('add', _op.add)
    __sub__, __rsub__ = core._binop('sub', _op.sub)
    __mul__, __rmul__ = core._binop('mul', _op.mul)
    __truediv__, __rtruediv__ = core._binop('truediv', _op.truediv)

    def __neg__(self):
        return SF(z3.fpNeg(self.t))

    def __abs__(self):
        return SF(z3.fpAbs(self.t))

    def _cmp(self, o, fn):
        b = SF.lift(o)
        if b is None:
            return NotImplemented
        return SB(fn(self.t, b.t))

    def __eq__(self, o):
        if o is None:
            return False
        r = self._cmp(o, z3.fpEQ)
        return False if r is NotImplemented else r

    def __ne__(self, o):
        if o is None:
            return True
        r = self._cmp(o, z3.fpNEQ)
        return True if r is NotImplemented else r

    def __lt__(self, o):
        return self._cmp(o, z3.fpLT)

    def __le__(self, o):
        return self._cmp(o, z3.fpLEQ)

    def __gt__(self, o):
        return self._cmp(o, z3.fpGT)

    def __ge__(self, o):
        return self._cmp(o, z3.fpGEQ)

    __hash__ = _Num.__hash__

    def __bool__(self):
        return ctx().branch(z3.Not(z3.fpIsZero(self.t)))

    def ceil(self):
        return SF(z3.fpRoundToIntegral(z3.RTP(), self.t))

    def __repr__(self):
        return 'SF(%s)' % self.t


core.register_sym(SF)


def fp_model_value(m, x):
    if isinstance(x, SF):
        v = m.eval(x.t, model_completion=True)
        if z3.is_fp_value(v) or z3.is_fprm_value(v):
            if v.isNaN():
                return float('nan')
            if v.isInf():
                return float('-inf') if v.isNegative() else float('inf')
            s = v.sign()
            sig = v.significand_as_long()
            ex = v.exponent_as_long(biased=True)
            if ex == 0:
                val = sig * 2.0 ** (-1074)
            else:
                val = (1 + sig / 2.0 ** 52) * 2.0 ** (ex - 1023)
            return -val if s else val
        raise HarnessError('cannot evaluate %s' % v)
    return x


def numpy_arange(start, stop=None, step=1, dtype=None):
    """numpy's arange on doubles with symbolic operands.

    length = ceil((stop - start)/step) computed in double arithmetic (numpy's documented rule);
    elements follow numpy's fill loop: a[0] = start, delta = (start + step) - start,
    a[k] = start + k*delta.  The length is concretised by forking over its feasible values."""
    if stop is None:
        start, stop = 0, start
    if not any(isinstance(a, SF) for a in (start, stop, step)):
        return NotImplemented
    start, stop, step = SF.lift(start), SF.lift(stop), SF.lift(step)
    c = ctx()
    val = (stop - start) / step
    L = val.ceil()
    c.notes.append('arange length term built')
    n = _concretize_len(L)
    out = np.empty(max(n, 0), dtype=object)
    delta = (start + step) - start
    for k in range(max(n, 0)):
        out[k] = start if k == 0 else ((start + step) if k == 1 else start + SF(fpval(k)) * delta)
    return out


def _concretize_len(L):
    c = ctx()
    while True:
        v = c.next_tag()
        if v is None:
            r = c.check()
            if r == z3.unsat:
                raise core.PathAbort('infeasible')
            if r != z3.sat:
                c.notes.append('arange length: solver unknown while enumerating lengths')
                raise core.PathAbort('unknown while concretising an arange length')
            mv = fp_model_value(c.solver.model(), L)
            if math.isnan(mv) or math.isinf(mv):
                raise ValueError('arange: cannot compute length')
            v = int(mv)
        if c.branch(z3.fpEQ(L.t, fpval(v)), tag=v):
            return v


# ---------------------------------------------------------------------------
# SE: the standard model of floating-point arithmetic over the reals
#     fl(a op b) = (a op b)(1 + e), |e| <= 2^-53   (no overflow/underflow in the stated ranges)
# Used where a tolerance on VALUES is asserted; bit-precise SF is used where a rounding
# threshold decides a COUNT.
# ---------------------------------------------------------------------------

from fractions import Fraction as _Fr
from .core import SR

U = _Fr(1, 2 ** 53)


class SE(_Num):
    __slots__ = ('v',)

    def __init__(self, v):
        self.v = SR.lift(v)

    @staticmethod
    def var(name):
        return SE(SR.var(name))

    @staticmethod
    def lift(x):
        if isinstance(x, SE):
            return x
        if isinstance(x, (int, float, np.integer, np.floating, SR)):
            return SE(x)
        return None

    @staticmethod
    def _round(x):
        c = ctx()
        e = c.fresh('eps')
        c.axiom(e <= core.RV(U))
        c.axiom(e >= core.RV(-U))
        return SE(x * SR(1 + e))

    def _bin(self, o, swap, fn):
        if isinstance(o, np.ndarray):
            return NotImplemented
        b = SE.lift(o)
        if b is None:
            return NotImplemented
        a = self
        if swap:
            a, b = b, a
        return SE._round(fn(a.v, b.v))

    def _add(self, o, swap):
        return self._bin(o, swap, _op.add)

    def _sub(self, o, swap):
        return self._bin(o, swap, _op.sub)

    def _mul(self, o, swap):
        return self._bin(o, swap, _op.mul)

    def _truediv(self, o, swap):
        return self._bin(o, swap, _op.truediv)

    __add__, __radd__ = core._binop('add', _op.add)
    __sub__, __rsub__ = core._binop('sub', _op.sub)
    __mul__, __rmul__ = core._binop('mul', _op.mul)
    __truediv__, __rtruediv__ = core._binop('truediv', _op.truediv)

    def __neg__(self):
        return SE(-self.v)

    def __abs__(self):
        return SE(abs(self.v))

    def _cmp(self, o, fn):
        b = SE.lift(o)
        if b is None:
            return NotImplemented
        return fn(self.v, b.v)

    def __eq__(self, o):
        if o is None:
            return False
        r = self._cmp(o, _op.eq)
        return False if r is NotImplemented else r

    def __ne__(self, o):
        if o is None:
            return True
        r = self._cmp(o, _op.ne)
        return True if r is NotImplemented else r

    def __lt__(self, o):
        return self._cmp(o, _op.lt)

    def __le__(self, o):
        return self._cmp(o, _op.le)

    def __gt__(self, o):
        return self._cmp(o, _op.gt)

    def __ge__(self, o):
        return self._cmp(o, _op.ge)

    __hash__ = _Num.__hash__

    def __bool__(self):
        return bool(self.v != 0)

    def __repr__(self):
        return 'SE(%r)' % self.v


core.register_sym(SE)
