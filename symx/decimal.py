"""symx.decimal -- symbolic decimal strings: the text `'% .Nf' % x` / `'% e' % x` of a symbolic
real, on which exactly the string operations util.format_float performs are modelled as integer
operations (DESIGN 3, C19a).  Also the decade oracle standing in for int(log(|x|)/log(10))."""
from fractions import Fraction
import re
import numpy as np
import z3

from . import core, tokens
from .core import SR, SI, SB, ctx, HarnessError

FUZZ = Fraction(1, 10 ** 12)       # float log is not monotone to the last bit next to a power of ten
DEC_MIN, DEC_MAX = -32, 14


class LogVal:
    """np.log(x) of a positive symbolic real in decade mode."""
    __array_ufunc__ = None

    def __init__(self, x):
        self.x = x

    def __truediv__(self, o):
        if isinstance(o, (float, np.floating)) and abs(float(o) - float(np.log(10))) < 1e-15:
            return Log10Val(self.x)
        raise HarnessError('decade oracle: unsupported use of log')


class Log10Val:
    def __init__(self, x):
        self.x = x

    def __sx_int__(self):
        """int(log10 x): truncation toward zero.  Forks over the possible results; within FUZZ of a
        power of ten both neighbouring results are admitted (double log is inexact there), which is
        why each candidate is guarded by a free choice variable instead of being excluded."""
        c = ctx()
        x = SR.lift(self.x)
        for r in range(DEC_MAX, DEC_MIN - 1, -1):
            if r >= 1:
                lo, hi = Fraction(10) ** r, Fraction(10) ** (r + 1)
            elif r == 0:
                lo, hi = Fraction(1, 10), Fraction(10)
            else:
                lo, hi = Fraction(10) ** (r - 1), Fraction(10) ** r
            choose = c.fresh('pick', 'bool')
            if c.branch(z3.And(choose, (x >= lo * (1 - FUZZ)).t, (x <= hi * (1 + FUZZ)).t)):
                return r
        raise core.PathAbort('value outside the modelled decades')


def decade_log(x):
    if isinstance(x, SR):
        return LogVal(x)
    return np.log(x)


_SPEC = re.compile(r'^% \.(\d+)f$')


class SymDec:
    """sign + digits of N with `prec` decimals (text of '% .{prec}f' % x), under the string
    operations of format_float."""
    __array_ufunc__ = None

    def __init__(self, sign, N, prec, width, has_dot, lead_zero=True, pad=0, maxlen=None, st0=False, stdot=False):
        self.st0, self.stdot = st0, stdot
        self.sign = sign            # ' ' or '-'
        self.N = N                  # SI >= 0 : all digits as one integer
        self.prec = prec            # decimals currently in the text
        self.width = width          # digits currently in the text (integer + decimals), zero padded
        self.has_dot = has_dot      # a '.' is part of the text
        self.lead_zero = lead_zero  # the single '0' integer digit is still there
        self.pad = pad
        self.maxlen = maxlen if maxlen is not None else self.length_ub()

    # -- construction -----------------------------------------------------------
    @staticmethod
    def format(spec_prec, x):
        c = ctx()
        x = SR.lift(x)
        neg = bool(x < 0)
        a = -x if neg else x
        scaled = a * (Fraction(10) ** spec_prec)
        n = c.fresh('digits', 'int')
        N = SR(z3.ToReal(n))
        c.axiom(n >= 0)
        c.axiom((N - scaled <= Fraction(1, 2)).t)
        c.axiom((scaled - N <= Fraction(1, 2)).t)
        Ni = SI(n)
        # number of digits: fork
        k = 1
        while True:
            if bool(Ni < 10 ** k):
                break
            k += 1
            if k > 60:
                raise core.PathAbort('too many digits')
        width = max(k, spec_prec + 1)
        # CPython prints -0.000 for tiny negatives: the sign is that of x
        return SymDec('-' if neg else ' ', Ni, spec_prec, width, spec_prec > 0)

    def length_ub(self):
        return 1 + self.width + (1 if self.has_dot else 0) - (0 if self.lead_zero else 1)

    def _clone(self, **kw):
        d = dict(sign=self.sign, N=self.N, prec=self.prec, width=self.width, has_dot=self.has_dot,
                 lead_zero=self.lead_zero, pad=self.pad, maxlen=self.maxlen, st0=self.st0, stdot=self.stdot)
        d.update(kw)
        return SymDec(**d)

    # -- str protocol used by format_float ------------------------------------------
    def __contains__(self, ch):
        if ch == '.':
            return self.has_dot
        raise HarnessError('SymDec: in %r' % ch)

    def __getitem__(self, sl):
        if isinstance(sl, int):
            if sl == 0:
                return self.sign
            raise HarnessError('SymDec index %r' % sl)
        if sl.step is not None:
            raise HarnessError('SymDec slice step')
        if sl.start in (None, 0) and sl.stop is not None and sl.stop >= 0:
            k = sl.stop
            L = self.length_ub()
            if L <= k:
                return self
            cut = L - k
            c = ctx()
            if not self.has_dot or cut > self.prec:
                # the cut removes integer digits (and the '.'): the reader sees only the leading digits
                drop = cut if not self.has_dot else cut - 1          # the '.' itself is one character
                q = c.fresh('cutq', 'int')
                r = c.fresh('cutr', 'int')
                pw = 10 ** drop
                c.axiom(self.N.t == q * pw + r)
                c.axiom(z3.And(r >= 0, r < pw, q >= 0))
                return self._clone(N=SI(q), prec=0, width=self.width - drop, has_dot=False, maxlen=None)
            q = c.fresh('cutq', 'int')
            r = c.fresh('cutr', 'int')
            p = 10 ** cut
            c.axiom(self.N.t == q * p + r)
            c.axiom(z3.And(r >= 0, r < p, q >= 0))
            return self._clone(N=SI(q), prec=self.prec - cut, width=self.width - cut, maxlen=None)
        if sl.start == 2 and sl.stop is None:
            return _Tail(self, 2)
        if sl.start == 1 and sl.stop is None:
            return _Tail(self, 1)
        raise HarnessError('SymDec slice %r' % (sl,))

    def rstrip(self, chars=None):
        if chars == '0':
            return self._clone(st0=True)     # trailing zero decimals: value unchanged (length only shrinks)
        if chars == '.':
            return self._clone(stdot=True)   # a trailing '.' disappears: value unchanged
        if chars is None:
            return self._clone(pad=0)
        raise HarnessError('SymDec.rstrip(%r)' % chars)

    def startswith(self, pre):
        if pre in (' 0.', '-0.'):
            if pre[0] != self.sign or not self.has_dot or not self.lead_zero:
                return False
            if self.prec == 0:
                return False       # text is '<sign><digits>' after the '.' was stripped
            # integer part is the single digit 0 and at least one non-zero decimal survives rstrip
            intzero = self.N < 10 ** self.prec
            return bool(intzero & (self.N != 0)) if self.width == self.prec + 1 else False
        raise HarnessError('SymDec.startswith(%r)' % pre)

    def strip(self):
        return _Stripped(self)

    def upper(self):
        return self

    def __radd__(self, o):
        raise HarnessError('str + SymDec')

    def padded(self, width):
        return self._clone(pad=width)

    # -- reading back ----------------------------------------------------------------
    def value(self):
        v = SR.lift(self.N) * (Fraction(1) / Fraction(10) ** self.prec)
        return -v if self.sign == '-' else v

    def is_minus_zero_text(self):
        """The text is '-0' (possibly padded)."""
        if self.sign != '-':
            return False
        if self.has_dot and not (self.st0 and self.stdot):
            return False               # '-0.000000' is not the text '-0'
        return bool(self.N == 0)

    def __repr__(self):
        return 'SymDec(%r, N=%s, prec=%d, width=%d)' % (self.sign, self.N, self.prec, self.width)


class _Tail:
    """s[2:] / s[1:] of a SymDec; only ever re-joined with a sign character."""

    def __init__(self, d, start):
        self.d = d
        self.start = start

    def __radd__(self, o):
        if self.start == 2 and o in (' ', '-') and o == self.d.sign:
            return self.d._clone(lead_zero=False, maxlen=None)
        if self.start == 1 and o in (' ', '-'):
            return self.d._clone(sign=o)
        raise HarnessError('unsupported re-join %r + tail(%d)' % (o, self.start))


class _Stripped:
    def __init__(self, d):
        self.d = d

    def __eq__(self, o):
        if o == '-0':
            return self.d.is_minus_zero_text()
        if isinstance(o, str) and re.fullmatch(r'-?\d+', o) and (len(o.lstrip('-')) > 1 and o.lstrip('-')[0] == '0'):
            return False           # a text with a redundant leading zero is never produced
        raise HarnessError('SymDec.strip() == %r' % (o,))


class SymExp:
    """text of '% e' % x: sign, 7-digit mantissa M, exponent E;  value = M * 10^(E-6)."""
    __array_ufunc__ = None

    def __init__(self, sign, M, E):
        self.sign, self.M, self.E = sign, M, E

    @staticmethod
    def format(x):
        c = ctx()
        x = SR.lift(x)
        neg = bool(x < 0)
        a = -x if neg else x
        if bool(a == 0):
            return SymExp('-' if neg else ' ', SI(z3.IntVal(0)), 0)
        for E in range(DEC_MIN - 6, DEC_MAX + 1):
            if c.branch(z3.And((a >= Fraction(10) ** E).t, (a < Fraction(10) ** (E + 1)).t)):
                m = c.fresh('mant', 'int')
                Mr = SR(z3.ToReal(m))
                sc = a * (Fraction(10) ** (6 - E))
                c.axiom((Mr - sc <= Fraction(1, 2)).t)
                c.axiom((sc - Mr <= Fraction(1, 2)).t)
                return SymExp('-' if neg else ' ', SI(m), E)
        raise core.PathAbort('value outside the modelled decades')

    def upper(self):
        return self

    def strip(self):
        return _Never()

    def value(self):
        e = self.E - 6
        f = Fraction(10) ** e
        v = SR.lift(self.M) * f
        return -v if self.sign == '-' else v

    def length_ub(self):
        return 13


class _Never:
    def __eq__(self, o):
        return False


def fmt_hook(spec, arg):
    """Called by tokens.sx_mod in decimal mode for a single conversion of a symbolic real."""
    m = _SPEC.match(spec)
    if m:
        return SymDec.format(int(m.group(1)), arg)
    if spec == '% e':
        return SymExp.format(arg)
    return None
