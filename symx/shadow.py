"""symx.shadow -- load the real source of /repo/mininec into shadow modules (DESIGN 2.1).

Every check calls load() at start: the five files are read from the current
working tree, parsed, mechanically re-bound (numpy facade, shadow builtins,
`%` operator, dict displays) and exec-ed into fresh module objects.  Nothing
about /repo is cached between runs.
"""
import ast
import builtins
import os
import sys
import types

import numpy as _np
import z3

from . import core, npf, tokens
from .core import SR, SC, SI, SB, is_sym, HarnessError

REPO = os.environ.get('VERIF_REPO', '/repo')
FILES = ['util', 'segment', 'taper', 'pulse', 'mininec']


# ---------------------------------------------------------------------------
# shadow builtins
# ---------------------------------------------------------------------------

class _Meta(type):
    def __instancecheck__(cls, obj):
        return isinstance(obj, cls.__sx_builtin__) or isinstance(obj, cls.__sx_sym__)

    def __eq__(cls, other):
        return other is cls or other is cls.__sx_builtin__

    def __hash__(cls):
        return hash(cls.__sx_builtin__)

    def __getattr__(cls, n):
        # class-level attributes of the builtin (float.fromhex, int.from_bytes, ...) keep working
        if n.startswith('__sx_'):
            raise AttributeError(n)
        return getattr(cls.__sx_builtin__, n)


class sx_float(metaclass=_Meta):
    __sx_builtin__ = float
    __sx_sym__ = (SR,)

    def __new__(cls, x=0.0):
        if isinstance(x, (SR, SI)):
            return SR.lift(x)
        if isinstance(x, SC):
            raise TypeError("float() argument must be a string or a real number, not 'complex'")
        if tokens.has_token(x):
            return tokens.parse_real(x)
        return float(x)


class sx_int(metaclass=_Meta):
    __sx_builtin__ = int
    __sx_sym__ = (SI,)

    def __new__(cls, x=0, *a):
        if hasattr(x, '__sx_int__'):
            return x.__sx_int__()
        if isinstance(x, SI):
            return x
        if isinstance(x, SR):
            neg = bool(x < 0)
            m = tokens._trunc_int(-x if neg else x)
            return -m if neg else m
        if tokens.has_token(x):
            return tokens.parse_int(x)
        return int(x, *a)


class sx_complex(metaclass=_Meta):
    __sx_builtin__ = complex
    __sx_sym__ = (SC,)

    def __new__(cls, re=0, im=None):
        if tokens.has_token(re):
            return tokens.parse_complex(re)
        if is_sym(re) or is_sym(im):
            if im is None:
                return SC.lift(re)
            return SC.lift(re) + 1j * SC.lift(im)
        if im is None:
            return complex(re)
        return complex(re, im)


def sx_round(x, nd=None):
    if is_sym(x):
        raise HarnessError('round() of a symbolic value')
    return round(x) if nd is None else round(x, nd)


def sx_sorted(it, key=None, reverse=False):
    return sorted(it, key=key, reverse=reverse)


class SxDict(dict):
    """dict whose keys may be (tuples of) symbolic values: lookups compare with ==,
    which forks through SB.__bool__; purely concrete use is the builtin dict."""

    def __init__(self, *a, **kw):
        super().__init__()
        self._sym = False
        self._items = []          # insertion-ordered (key, value) for symbolic scans
        for k, v in dict(*a, **kw).items():
            self[k] = v

    @staticmethod
    def _symkey(k):
        if is_sym(k):
            return True
        if isinstance(k, tuple):
            return any(is_sym(e) for e in k)
        return False

    def _find(self, k):
        for i, (kk, v) in enumerate(self._items):
            if _key_eq(kk, k):
                return i
        return -1

    def __setitem__(self, k, v):
        if self._symkey(k):
            self._sym = True
        if self._sym:
            i = self._find(k)
            if i >= 0:
                self._items[i] = (self._items[i][0], v)
                return
            self._items.append((k, v))
            dict.__setitem__(self, _Opaque(k), v)
        else:
            if not dict.__contains__(self, k):
                self._items.append((k, v))
            else:
                for i, (kk, _) in enumerate(self._items):
                    if kk == k:
                        self._items[i] = (kk, v)
            dict.__setitem__(self, k, v)

    def __contains__(self, k):
        if not self._sym and not self._symkey(k):
            return dict.__contains__(self, k)
        return self._find(k) >= 0

    def __getitem__(self, k):
        if not self._sym and not self._symkey(k):
            return dict.__getitem__(self, k)
        i = self._find(k)
        if i < 0:
            raise KeyError(k)
        return self._items[i][1]

    def get(self, k, default=None):
        if not self._sym and not self._symkey(k):
            return dict.get(self, k, default)
        i = self._find(k)
        return default if i < 0 else self._items[i][1]

    def __iter__(self):
        return iter([k for k, _ in self._items])

    def keys(self):
        return [k for k, _ in self._items]

    def values(self):
        return [v for _, v in self._items]

    def items(self):
        return list(self._items)

    def __len__(self):
        return len(self._items)

    def update(self, *a, **kw):
        for k, v in dict(*a, **kw).items():
            self[k] = v

    # the remaining mutators must go through the same bookkeeping as __setitem__ (dict's C implementations would
    # bypass it and the shadow would no longer behave like a Python dict)
    def setdefault(self, k, default=None):
        if k in self:
            return self[k]
        self[k] = default
        return default

    _MISSING = object()

    def pop(self, k, default=_MISSING):
        if k in self:
            v = self[k]
            del self[k]
            return v
        if default is SxDict._MISSING:
            raise KeyError(k)
        return default

    def __delitem__(self, k):
        i = self._find(k) if (self._sym or self._symkey(k)) else next((j for j, (kk, _) in enumerate(self._items) if kk == k), -1)
        if i < 0:
            raise KeyError(k)
        kk, _ = self._items.pop(i)
        for dk in list(dict.keys(self)):
            if (isinstance(dk, _Opaque) and dk.k is kk) or (not isinstance(dk, _Opaque) and dk == kk):
                dict.__delitem__(self, dk)
                break

    def popitem(self):
        if not self._items:
            raise KeyError('popitem(): dictionary is empty')
        k, v = self._items[-1]
        del self[k]
        return k, v

    def clear(self):
        dict.clear(self)
        self._items = []
        self._sym = False

    def copy(self):
        c = SxDict()
        for k, v in self._items:
            c[k] = v
        return c

    def __eq__(self, other):
        if isinstance(other, SxDict):
            return self._items == other._items or dict(self._items) == dict(other._items) if not (self._sym or other._sym) else self._items == other._items
        if isinstance(other, dict):
            return not self._sym and dict(self._items) == other
        return NotImplemented

    __hash__ = None

    def __repr__(self):
        return 'SxDict(%r)' % (self._items,)


class _SetState:
    sym_order = False


set_state = _SetState()


class sx_set(set):
    """set whose iteration order over non-integer elements is ARBITRARY when set_state.sym_order is
    on (one fork per permutation; models identity-hashed objects and strings, whose order depends
    on addresses / hash seed).  Sets of ints iterate as CPython does."""

    def __iter__(self):
        items = list(set.__iter__(self))
        if not set_state.sym_order or len(items) < 2 or all(isinstance(x, int) for x in items):
            return iter(items)
        if len(items) > 4:
            raise HarnessError('symbolic iteration order over a set of %d elements' % len(items))
        # canonical base order, then a solver-chosen permutation
        items.sort(key=lambda x: getattr(x, 'n', None) if isinstance(getattr(x, 'n', None), int) else str(x))
        c = core.ctx()
        out = []
        rest = list(items)
        while len(rest) > 1:
            k = SI(c.fresh('setorder', 'int'))
            c.assume(z3.And(k.t >= 0, k.t < len(rest)))
            out.append(rest.pop(k.concretize()))
        out.extend(rest)
        return iter(out)


class _Opaque:
    __slots__ = ('k',)

    def __init__(self, k):
        self.k = k


def _key_eq(a, b):
    if isinstance(a, tuple) and isinstance(b, tuple):
        if len(a) != len(b):
            return False
        # one conjunction, one fork
        conj = None
        for x, y in zip(a, b):
            e = (x == y)
            if isinstance(e, SB):
                conj = e if conj is None else (conj & e)
            elif not e:
                return False
        return True if conj is None else bool(conj)
    if isinstance(a, tuple) or isinstance(b, tuple):
        return False
    e = (a == b)
    return bool(e)


# ---------------------------------------------------------------------------
# AST transformation
# ---------------------------------------------------------------------------

class _Rewrite(ast.NodeTransformer):
    def __init__(self, modname, stats):
        self.modname = modname
        self.stats = stats

    def visit_BinOp(self, node):
        self.generic_visit(node)
        if isinstance(node.op, ast.Mod):
            self.stats['mod_sites'] += 1
            return ast.copy_location(
                ast.Call(func=ast.Name(id='__sx_mod__', ctx=ast.Load()),
                         args=[node.left, node.right], keywords=[]), node)
        return node

    def visit_AugAssign(self, node):
        self.generic_visit(node)
        if isinstance(node.op, ast.Mod):
            raise HarnessError('unsupported construct: %%= in %s line %d' % (self.modname, node.lineno))
        # target op= value  ->  target = __sx_iop__(target, value, 'op')   (in-place where numpy can)
        import copy
        load = copy.deepcopy(node.target)
        for n in ast.walk(load):
            if hasattr(n, 'ctx'):
                n.ctx = ast.Load()
        self.stats['augassign_sites'] = self.stats.get('augassign_sites', 0) + 1
        call = ast.Call(func=ast.Name(id='__sx_iop__', ctx=ast.Load()),
                        args=[load, node.value, ast.Constant(value=type(node.op).__name__)], keywords=[])
        return ast.copy_location(ast.Assign(targets=[node.target], value=call), node)

    def visit_Dict(self, node):
        self.generic_visit(node)
        if any(k is None for k in node.keys):
            return node
        self.stats['dict_sites'] += 1
        return ast.copy_location(
            ast.Call(func=ast.Name(id='__sx_dict__', ctx=ast.Load()),
                     args=[node], keywords=[]), node)

    def visit_JoinedStr(self, node):
        for v in node.values:
            if isinstance(v, ast.FormattedValue):
                raise HarnessError('unsupported construct: f-string in %s line %d'
                                   % (self.modname, node.lineno))
        return node

    def visit_Attribute(self, node):
        self.generic_visit(node)
        if node.attr == 'format' and isinstance(node.value, ast.Constant) and isinstance(node.value.value, str):
            raise HarnessError('unsupported construct: str.format in %s line %d'
                               % (self.modname, node.lineno))
        return node

    def visit_Import(self, node):
        out = []
        for a in node.names:
            if a.name == 'numpy':
                self.stats['imports_rebound'] += 1
                out.append(ast.copy_location(ast.Assign(
                    targets=[ast.Name(id=a.asname or 'numpy', ctx=ast.Store())],
                    value=ast.Name(id='__sx_np__', ctx=ast.Load())), node))
            else:
                out.append(ast.copy_location(ast.Import(names=[a]), node))
        return out

    def visit_ImportFrom(self, node):
        if node.module and node.module.startswith('mininec.'):
            sib = node.module.split('.', 1)[1]
            self.stats['imports_rebound'] += 1
            out = []
            for a in node.names:
                out.append(ast.copy_location(ast.Assign(
                    targets=[ast.Name(id=a.asname or a.name, ctx=ast.Store())],
                    value=ast.Attribute(
                        value=ast.Subscript(value=ast.Name(id='__sx_mods__', ctx=ast.Load()),
                                            slice=ast.Constant(value=sib), ctx=ast.Load()),
                        attr=a.name, ctx=ast.Load())), node))
            return out
        if node.module == 'scipy.special':
            self.stats['imports_rebound'] += 1
            out = []
            for a in node.names:
                out.append(ast.copy_location(ast.Assign(
                    targets=[ast.Name(id=a.asname or a.name, ctx=ast.Store())],
                    value=ast.Attribute(value=ast.Name(id='__sx_npf__', ctx=ast.Load()),
                                        attr=a.name, ctx=ast.Load())), node))
            return out
        return node


import operator as _operator

_IOPS = dict(Add=(_operator.iadd, _operator.add), Sub=(_operator.isub, _operator.sub),
             Mult=(_operator.imul, _operator.mul), Div=(_operator.itruediv, _operator.truediv),
             Pow=(_operator.ipow, _operator.pow), FloorDiv=(_operator.ifloordiv, _operator.floordiv),
             BitAnd=(_operator.iand, _operator.and_), BitOr=(_operator.ior, _operator.or_),
             MatMult=(_operator.imatmul, _operator.matmul), LShift=(_operator.ilshift, _operator.lshift),
             RShift=(_operator.irshift, _operator.rshift), BitXor=(_operator.ixor, _operator.xor))


def sx_iop(a, b, opname):
    iop, op = _IOPS[opname]
    if isinstance(a, _np.ndarray) and (is_sym(b) or (isinstance(b, _np.ndarray) and b.dtype == object
                                                       and a.dtype != object)):
        r = op(a, b)
        if a.dtype == object and isinstance(r, _np.ndarray) and r.shape == a.shape:
            a[...] = r
            return a
        return r
    return iop(a, b)


class Shadow:
    """Namespace holding the shadow modules: .util .segment .taper .pulse .mininec"""

    def __init__(self):
        self.mods = {}
        self.stats = dict(mod_sites=0, dict_sites=0, imports_rebound=0, files={})
        self.entered = set()

    def __getattr__(self, n):
        try:
            return self.__dict__['mods'][n]
        except KeyError:
            raise AttributeError(n)


def load(repo=None, patches=None):
    """Load the current /repo/mininec sources as shadow modules.

    patches: optional {modname: callable(source)->source}, used ONLY by the
    self-tests that seed a wrong line into the shadow copy (never into /repo).
    """
    repo = repo or REPO
    sh = Shadow()
    glob = dict(
        __sx_np__=npf.NP, __sx_npf__=npf, __sx_mod__=tokens.sx_mod, __sx_dict__=SxDict,
        __sx_mods__=sh.mods, __sx_iop__=sx_iop,
        float=sx_float, int=sx_int, complex=sx_complex, min=core.smin, max=core.smax,
        round=sx_round, set=sx_set,
    )
    for name in FILES:
        path = os.path.join(repo, 'mininec', name + '.py')
        with open(path) as f:
            src = f.read()
        if patches and name in patches:
            src = patches[name](src)
        tree = ast.parse(src, filename=path)
        tree = _Rewrite(name, sh.stats).visit(tree)
        ast.fix_missing_locations(tree)
        code = compile(tree, path, 'exec')
        mod = types.ModuleType('sx_mininec.' + name)
        mod.__file__ = path
        mod.__dict__.update(glob)
        sh.mods[name] = mod
        sh.stats['files'][name] = len(src.splitlines())
        exec(code, mod.__dict__)
    return sh


class trace_functions:
    """Collect the names of shadow functions actually entered (for the evidence)."""

    def __init__(self, sh):
        self.sh = sh
        self.files = {os.path.join(REPO, 'mininec', n + '.py') for n in FILES}

    def __enter__(self):
        def prof(frame, event, arg):
            if event == 'call':
                co = frame.f_code
                if co.co_filename in self.files:
                    self.sh.entered.add('%s:%s' % (os.path.basename(co.co_filename), co.co_qualname))
        self.prev = sys.getprofile()
        sys.setprofile(prof)
        return self

    def __exit__(self, *a):
        sys.setprofile(self.prev)


def real_mininec(repo=None):
    """Import the untouched package from the working tree (for replays)."""
    repo = repo or REPO
    if repo not in sys.path:
        sys.path.insert(0, repo)
    for k in [k for k in sys.modules if k == 'mininec' or k.startswith('mininec.')]:
        if not getattr(sys.modules[k], '__file__', '').startswith(repo):
            del sys.modules[k]
    import mininec.mininec as mm
    return mm
