from .core import (SR, SC, SI, SB, Ctx, explore, ctx, set_ctx, HarnessError, PathAbort,
                   is_sym, ite, smin, smax, model_value, ufn, ufn_c, RV)
from . import core, npf, tokens, shadow
from .npf import object_arrays
from .shadow import load, real_mininec
