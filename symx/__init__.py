import sys as _sys
if hasattr(_sys, 'set_int_max_str_digits'):
    _sys.set_int_max_str_digits(0)          # exact rationals of products of doubles have thousands of digits (z3 numerals are passed as text)
from .core import (SR, SC, SI, SB, Ctx, explore, ctx, set_ctx, HarnessError, PathAbort,
                   is_sym, ite, smin, smax, model_value, ufn, ufn_c, RV)
from . import core, npf, tokens, shadow
from .npf import object_arrays
from .shadow import load, real_mininec
