"""symx.poly -- expand z3 real arithmetic terms to sum-of-monomials form, and the *monomial
relaxation*: every non-constant monomial becomes a fresh variable ranging over the interval its
factors allow, which turns "|p(x)| <= tol for all x in a box" into a linear-real-arithmetic query
(sound: the relaxation admits at least every value the polynomial can take)."""
from fractions import Fraction
import z3


def _q(t):
    return Fraction(t.numerator_as_long(), t.denominator_as_long())


def expand(t, cache=None):
    """z3 Real term (+, *, -, numerals, uninterpreted constants/applications, integer powers)
    -> {monomial: Fraction}; monomial = sorted tuple of (atom string, power); () = constant."""
    if cache is None:
        cache = {}
    k = t.get_id()
    if k in cache:
        return cache[k]
    if z3.is_rational_value(t):
        r = {(): _q(t)} if _q(t) != 0 else {}
    elif z3.is_int_value(t):
        r = {(): Fraction(t.as_long())} if t.as_long() != 0 else {}
    elif z3.is_app(t) and t.decl().kind() == z3.Z3_OP_ADD:
        r = {}
        for c in t.children():
            for m, v in expand(c, cache).items():
                r[m] = r.get(m, 0) + v
        r = {m: v for m, v in r.items() if v != 0}
    elif z3.is_app(t) and t.decl().kind() == z3.Z3_OP_SUB:
        ch = t.children()
        r = dict(expand(ch[0], cache))
        for c in ch[1:]:
            for m, v in expand(c, cache).items():
                r[m] = r.get(m, 0) - v
        r = {m: v for m, v in r.items() if v != 0}
    elif z3.is_app(t) and t.decl().kind() == z3.Z3_OP_UMINUS:
        r = {m: -v for m, v in expand(t.arg(0), cache).items()}
    elif z3.is_app(t) and t.decl().kind() == z3.Z3_OP_MUL:
        r = {(): Fraction(1)}
        for c in t.children():
            r = _pmul(r, expand(c, cache))
    elif z3.is_app(t) and t.decl().kind() == z3.Z3_OP_POWER and z3.is_rational_value(t.arg(1)) \
            and _q(t.arg(1)).denominator == 1 and _q(t.arg(1)) >= 0:
        base = expand(t.arg(0), cache)
        r = {(): Fraction(1)}
        for _ in range(int(_q(t.arg(1)))):
            r = _pmul(r, base)
    elif z3.is_app(t) and t.decl().kind() == z3.Z3_OP_TO_REAL:
        r = {((str(t), 1),): Fraction(1)}
    else:
        # an atom: variable or uninterpreted application (If-terms etc. are atoms too)
        r = {((t.sexpr(), 1),): Fraction(1)}
    cache[k] = r
    return r


def _pmul(a, b):
    out = {}
    for m1, v1 in a.items():
        for m2, v2 in b.items():
            d = dict(m1)
            for x, p in m2:
                d[x] = d.get(x, 0) + p
            m = tuple(sorted(d.items()))
            out[m] = out.get(m, 0) + v1 * v2
    return {m: v for m, v in out.items() if v != 0}


def relaxed_abs_bound(t, box, default=None):
    """Upper bound of |t| over a box {atom sexpr: bound on |atom|}: sum |coef| * prod bound^power.
    Returned together with an LRA formulation for the solver: (poly, monomial bounds)."""
    poly = expand(t)
    mono = {}
    for m in poly:
        b = Fraction(1)
        for x, p in m:
            bx = box.get(x, default)
            if bx is None:
                raise KeyError('no bound for atom %s' % x)
            b *= Fraction(bx) ** p
        mono[m] = b
    return poly, mono


def relaxation_query(terms, box, tol, default=None):
    """z3 formula over fresh monomial variables that is satisfiable iff the linear relaxation of
    some term exceeds tol in absolute value.  terms: list of z3 Real terms (polynomials)."""
    fs = []
    cons = []
    vid = [0]
    mvars = {}
    for t in terms:
        poly, mono = relaxed_abs_bound(t, box, default)
        acc = z3.RealVal(0)
        for m, c in poly.items():
            if m == ():
                acc = acc + z3.RealVal(str(c))
                continue
            if m not in mvars:
                vid[0] += 1
                v = z3.Real('mono!%d' % vid[0])
                mvars[m] = v
                b = z3.RealVal(str(mono[m]))
                cons.append(z3.And(v <= b, v >= -b))
            acc = acc + z3.RealVal(str(c)) * mvars[m]
        T = z3.RealVal(str(Fraction(tol)))
        fs.append(z3.Or(acc > T, acc < -T))
    return z3.And(z3.And(*cons) if cons else z3.BoolVal(True), z3.Or(*fs) if fs else z3.BoolVal(False))


# ---------------------------------------------------------------------------------------------
# multiplication as an uninterpreted function (sound for `unsat`: if no interpretation of `mul`
# separates two terms, real multiplication does not either).  Turns UF + nonlinear problems that
# z3 cannot bound in time into QF_UFLRA, where congruence decides "same computation" questions.
# ---------------------------------------------------------------------------------------------

_MUL = z3.Function('uf_mul', z3.RealSort(), z3.RealSort(), z3.RealSort())


def abstract_mul(e, cache=None):
    if cache is None:
        cache = {}
    k = e.get_id()
    if k in cache:
        return cache[k]
    if not z3.is_app(e) or e.num_args() == 0:
        r = e
    else:
        ch = [abstract_mul(c, cache) for c in e.children()]
        kind = e.decl().kind()
        if kind == z3.Z3_OP_MUL:
            consts = [c for c in ch if z3.is_rational_value(c) or z3.is_int_value(c)]
            rest = sorted([c for c in ch if not (z3.is_rational_value(c) or z3.is_int_value(c))], key=lambda c: c.get_id())
            if len(rest) <= 1:
                r = e.decl()(*ch) if len(ch) > 1 else ch[0]
            else:
                acc = rest[0]
                for c in rest[1:]:
                    acc = _MUL(acc, c)
                r = acc
                for c in consts:
                    r = c * r
        elif kind == z3.Z3_OP_POWER and z3.is_rational_value(ch[1]) and _q(ch[1]).denominator == 1 and _q(ch[1]) >= 1:
            acc = ch[0]
            for _ in range(int(_q(ch[1])) - 1):
                acc = _MUL(acc, ch[0])
            r = acc
        else:
            r = e.decl()(*ch)
    cache[k] = r
    return r
