"""Symbolic wire graphs (DESIGN 2.4): wire end coordinates are solver variables, Euclidean length
is abstracted (symx abstract norm), points are in generic position.  The coincidence pattern of
the ends is decided FIRST (one fork per pair of ends), so every explored path is one wire-graph
class with all its coordinates universally quantified."""
import itertools
import numpy as np
import z3

import symx
from symx import SR, core, npf

DMIN, DMAX = 1.0, 100.0          # DMAX * 1e-3 < DMIN: distinct points are never within tolerance


class AbstractNorm:
    """norm(v): a fresh real per distinct vector (same for v and -v), 0 iff v = 0, else in
    [DMIN, DMAX] for vectors between wire END points; free positive for other vectors
    (segment pieces), which the code either overrides or only uses as a length."""

    def __init__(self):
        self.memo = {}

    def __call__(self, x, axis=None):
        c = symx.ctx()
        if axis is not None and x.ndim > 1:
            raise symx.HarnessError('abstract norm with axis on a matrix')
        comps = [SR.lift(e) for e in x.reshape(-1)]
        negs = [-e for e in comps]
        key = tuple(core._ids(c, e.n, e.d) for e in comps)
        nkey = tuple(core._ids(c, e.n, e.d) for e in negs)
        memo = c.__dict__.setdefault('norm_memo', {})
        if key in memo:
            return memo[key]
        if nkey in memo:
            return memo[nkey]
        nv = c.fresh('norm')
        zero = z3.And(*[e.n == 0 for e in comps])
        c.axiom(nv >= 0)
        c.axiom(z3.Implies(zero, nv == 0))
        c.axiom(z3.Implies(z3.Not(zero), z3.And(nv >= core.RV(DMIN), nv <= core.RV(DMAX))))
        r = SR(nv)
        memo[key] = r
        return r


def end_norm_bounds(c, nv, zero):
    c.axiom(z3.Implies(z3.Not(zero), z3.And(nv >= core.RV(DMIN), nv <= core.RV(DMAX))))


def sym_points(nw, ground):
    """2*nw symbolic end points with the genericity assumption; returns list [(x,y,z)]."""
    c = symx.ctx()
    pts = []
    for w in range(nw):
        for e in (0, 1):
            p = tuple(SR.var('w%de%d_%s' % (w + 1, e + 1, ax)) for ax in 'xyz')
            for q in p:
                c.assume(z3.And(q.n >= core.RV(-DMAX), q.n <= core.RV(DMAX)))
            if ground:
                c.assume(z3.Or(p[2].n == 0, p[2].n >= core.RV(DMIN)))
            else:
                # generic position in free space: no end point in (or within tolerance of) the plane z = 0
                # (Wire.compute_ground snaps |z| < eps to 0 even without ground)
                c.assume(z3.Or(p[2].n >= core.RV(DMIN), p[2].n <= core.RV(-DMIN)))
            pts.append(p)
    for a, b in itertools.combinations(range(len(pts)), 2):
        pa, pb = pts[a], pts[b]
        same = z3.And(*[x.n == y.n for x, y in zip(pa, pb)])
        alld = z3.And(*[x.n != y.n for x, y in zip(pa, pb)])
        c.assume(z3.Or(same, alld))
        if ground:
            # two grounded points may share z = 0 but must differ in x and y
            c.assume(z3.Or(same, alld, z3.And(pa[2].n == 0, pb[2].n == 0, pa[0].n != pb[0].n, pa[1].n != pb[1].n)))
    return pts


def decide_pattern(pts, ground):
    """Fork on the coincidence pattern; returns (block index per end, grounded flags)."""
    n = len(pts)
    blk = list(range(n))
    for a, b in itertools.combinations(range(n), 2):
        if bool(pts[a][0] == pts[b][0]):
            blk[b] = blk[a] if blk[b] == b else blk[b]
    # normalise
    rep = {}
    out = []
    for i in range(n):
        j = i
        while blk[j] != j:
            j = blk[j]
        out.append(rep.setdefault(j, len(rep)))
    gnd = [False] * n
    if ground:
        for i in range(n):
            gnd[i] = bool(pts[i][2] == 0)
    return out, gnd


def build(M, nw, nsegs, ground, radii=(0.002, 0.003, 0.0025, 0.0035), f=29.98, tags=None):
    """Run the real Mininec construction on symbolic end points.  Call inside explore()."""
    c = symx.ctx()
    pts = sym_points(nw, ground)
    blk, gnd = decide_pattern(pts, ground)
    an = AbstractNorm()
    old = (npf.state.norm_mode, getattr(npf.state, 'abstract_norm', None))
    npf.state.norm_mode = 'abstract'

    def norm(x, axis=None):
        r = an(x, axis)
        return r
    npf.state.abstract_norm = norm
    # wire lengths (norm of end2-end1) lie in [DMIN, DMAX]
    try:
        with symx.object_arrays():
            geo = []
            for w in range(nw):
                p1, p2 = pts[2 * w], pts[2 * w + 1]
                geo.append(M.Wire(nsegs[w], *p1, *p2, radii[w], tag=None if tags is None else tags[w]))
                wl = geo[-1].wire_len
                zero = z3.And(*[a.n == b.n for a, b in zip(p1, p2)])
                end_norm_bounds(c, wl.n, zero)
            # distances between any two end points are also in [DMIN, DMAX] unless identical
            media = [M.Medium(0, 0)] if ground else None
            m = M.Mininec(f, geo, media=media)
    finally:
        npf.state.norm_mode, npf.state.abstract_norm = old
    return m, pts, blk, gnd
