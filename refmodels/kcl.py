"""Reference model for C09: junctions and through-currents from pulse geometry only.

Uses nothing but geobj.endpoints, the media flag, and per pulse .point / .ends / .geo / .idx
(the observables named by the property); never the conn / end_segs bookkeeping of the code."""
import numpy as np


def _dist(a, b):
    return float(np.linalg.norm(np.asarray(a, dtype=float) - np.asarray(b, dtype=float)))


def min_seglen(m):
    return min(float(s.seg_len) for g in m.geo for s in g.segments)


def wire_ends(m):
    """[(geobj, end index, point, grounded?)] in object order."""
    tol = 1e-3 * min_seglen(m)
    out = []
    for g in m.geo:
        for e in (0, 1):
            p = np.asarray(g.endpoints[e], dtype=float)
            gnd = m.media is not None and abs(p[2]) < tol
            out.append((g, e, p, gnd))
    return out


def junctions(m):
    """Union-find over ungrounded wire ends closer than 1e-3 * shortest segment."""
    tol = 1e-3 * min_seglen(m)
    ends = [x for x in wire_ends(m) if not x[3]]
    parent = list(range(len(ends)))

    def find(i):
        while parent[i] != i:
            parent[i] = parent[parent[i]]
            i = parent[i]
        return i
    for i in range(len(ends)):
        for j in range(i):
            if _dist(ends[i][2], ends[j][2]) <= tol:
                parent[find(i)] = find(j)
    groups = {}
    for i, x in enumerate(ends):
        groups.setdefault(find(i), []).append(x)
    return [g for g in groups.values() if len(g) > 1]


def through_current(m, I, g, e):
    """Sum of the pulse currents flowing through end e of wire g, positive in the direction
    end1 -> end2 of g."""
    tol = 1e-3 * min_seglen(m)
    P = np.asarray(g.endpoints[e], dtype=float)
    wdir = np.asarray(g.endpoints[1], dtype=float) - np.asarray(g.endpoints[0], dtype=float)
    tot = 0.0
    for p in m.pulses:
        if _dist(p.point, P) > tol:
            continue
        for h in (0, 1):
            if p.geo[h] is not g:
                continue
            ref = (np.asarray(p.point, dtype=float) - np.asarray(p.ends[0], dtype=float)) if h == 0 \
                else (np.asarray(p.ends[1], dtype=float) - np.asarray(p.point, dtype=float))
            o = 1.0 if float(np.dot(ref, wdir)) > 0 else -1.0
            tot = tot + o * I[p.idx]
    return tot


def parse_current_report(text, m):
    """{(object position, end): ('E'|'J', [re, im] texts)} from the CURRENT DATA block."""
    lines = text.split('\n')
    out = {}
    gi = -1
    seen_row = False
    pending = []
    blocks = []
    for ln in lines:
        if ' NO. ' in ln and ln.rstrip().endswith(':'):
            blocks.append([])
            continue
        if not blocks:
            continue
        blocks[-1].append(ln)
    for gi, b in enumerate(blocks):
        body = b[2:]           # two header lines
        marks = []
        rows = 0
        for ln in body:
            if ln.startswith('E ') or ln.startswith('J '):
                marks.append((ln[0], rows, ln[1:].split()))
            elif ln.strip():
                rows += 1
        out[gi] = dict(marks=marks, rows=rows)
    return out
