"""Geometry catalogue G1..G14 (DESIGN 2.7).  Built through the public API of whichever
module namespace is passed in (shadow or real), so both see identical numbers."""
import random

F0 = 29.98      # MHz -> wavelength 10 m; segments ~ lambda/20
CAT_F = {'G24': 0.1}          # members with their own frequency

# name: (objects, ground?)   object = ('w', nseg, p1, p2, r) | ('a', nseg, R, a1, a2, r) | ('h', nseg, len, turn, r, rx, ry)
CAT = {
    'G1': ([('w', 4, (0.1, 0.2, 0.3), (2.1, 0.5, 0.7), 0.002)], False),
    'G2': ([('w', 3, (0.0, 0.0, 0.0), (1.5, 0.3, 0.2), 0.002),
            ('w', 2, (1.5, 0.3, 0.2), (1.7, 1.2, 0.9), 0.004)], False),
    'G3': ([('w', 3, (0.0, 0.0, 0.0), (1.5, 0.3, 0.2), 0.002),
            ('w', 2, (0.0, 0.0, 0.0), (-0.2, 0.9, 0.7), 0.004)], False),
    'G4': ([('w', 3, (0.0, 0.0, 0.0), (1.5, 0.3, 0.2), 0.002),
            ('w', 2, (1.7, 1.2, 0.9), (1.5, 0.3, 0.2), 0.004)], False),
    'G5': ([('w', 2, (0.0, 0.0, 0.0), (1.0, 0.2, 0.1), 0.002),
            ('w', 2, (1.0, 0.2, 0.1), (2.0, 0.5, 0.3), 0.002),
            ('w', 2, (1.0, 0.2, 0.1), (1.1, 1.1, 0.6), 0.003)], False),
    'G6': ([('w', 2, (0.0, 0.0, 0.0), (1.0, 0.2, 0.1), 0.002),
            ('w', 2, (0.0, 0.0, 0.0), (-0.3, 0.9, 0.4), 0.003),
            ('w', 2, (-0.5, -0.8, 0.5), (0.0, 0.0, 0.0), 0.0025)], False),
    'G7': ([('w', 4, (0.0, 0.0, 0.0), (0.0, 0.0, 2.0), 0.002)], True),
    'G8': ([('w', 3, (0.8, 0.5, 1.6), (0.0, 0.0, 0.0), 0.002)], True),
    'G9': ([('w', 3, (0.0, 0.0, 0.0), (0.0, 0.0, 1.5), 0.002),
            ('w', 3, (0.0, 0.0, 1.5), (1.4, 0.3, 1.6), 0.003)], True),
    'G10': ([('w', 2, (0.0, 0.0, 0.0), (0.1, 0.1, 1.0), 0.002),
             ('w', 2, (1.2, 0.3, 0.0), (1.1, 0.2, 1.0), 0.002),
             ('w', 2, (0.1, 0.1, 1.0), (1.1, 0.2, 1.0), 0.003)], True),
    'G11': ([('w', 4, (0.1, 0.2, 0.3), (2.1, 0.5, 0.7), 0.002, 1)], False),
    'G12': ([('a', 4, 1.0, 10.0, 130.0, 0.002)], False),
    'G13': ([('h', 6, 1.0, 1.0, 0.002, 0.3, 0.25)], False),
    'G14': ([('w', 4, (0.0, 0.1, 0.55), (2.0, 0.4, 0.6), 0.002)], True),
    # slightly leaning grounded wires (6.4 degrees off vertical), grounded at end 1 / at end 2 with a top wire
    'G15': ([('w', 4, (0.0, 0.0, 0.0), (0.2, 0.1, 2.0), 0.002)], True),
    # arrays of exactly vertical wires, one of them off the z axis (free space / grounded)
    'G17': ([('w', 3, (0.0, 0.0, 0.5), (0.0, 0.0, 2.0), 0.002),
             ('w', 3, (1.3, 0.7, 0.2), (1.3, 0.7, 1.4), 0.003)], False),
    'G18': ([('w', 3, (0.0, 0.0, 0.0), (0.0, 0.0, 1.5), 0.002),
             ('w', 3, (1.3, 0.7, 0.0), (1.3, 0.7, 1.2), 0.003)], True),
    # two wires exactly in line with exactly equal segment lengths but different radii (a straight conductor that changes diameter)
    'G19': ([('w', 3, (0.0, 0.0, 1.0), (1.5, 0.0, 1.0), 0.002),
             ('w', 3, (1.5, 0.0, 1.0), (3.0, 0.0, 1.0), 0.06)], False),
    'G20': ([('w', 3, (0.0, 0.0, 1.0), (1.5, 0.0, 1.0), 0.002),
             ('w', 3, (1.5, 0.0, 1.0), (3.0, 0.0, 1.0), 0.06)], True),
    # a wire tapered from its first end (first and last segment differ) whose SECOND end is met by the second end of a later wire
    'G21': ([('w', 4, (0.0, 0.0, 0.0), (1.5, 0.3, 0.2), 0.002, 1),
             ('w', 4, (3.3, 1.9, 1.6), (1.5, 0.3, 0.2), 0.004)], False),
    # ... and whose FIRST end is met by the first end of a later wire
    'G22': ([('w', 4, (0.0, 0.0, 0.0), (1.5, 0.3, 0.2), 0.002, 2),
             ('w', 4, (0.0, 0.0, 0.0), (-1.2, 1.9, 1.4), 0.004)], False),
    # a fat mast at low frequency: radius 0.25 m, 1 m segments (4 radii), below 1e-4 wavelength at 0.1 MHz and above it at 0.125 MHz
    'G24': ([('w', 12, (0.0, 0.0, 0.0), (0.0, 0.0, 12.0), 0.25)], True),
    # a grounded end whose height is a rounding residue below zero (0.3 - 0.1 - 0.2 = -2.8e-17): within the tolerance, hence grounded
    'G23': ([('w', 4, (0.0, 0.0, 0.3 - 0.1 - 0.2), (0.4, 0.2, 2.0), 0.002)], True),
    # closed loops made of exactly two objects: a half circle closed by a wire (either order, either wire direction), two half circles
    'G25': ([('a', 4, 1.0, 0.0, 180.0, 0.002), ('w', 3, (-1.0, 0.0, 0.0), (1.0, 0.0, 0.0), 0.002)], False),
    'G26': ([('w', 3, (1.0, 0.0, 0.0), (-1.0, 0.0, 0.0), 0.002), ('a', 4, 1.0, 0.0, 180.0, 0.002)], False),
    'G27': ([('a', 4, 1.0, 0.0, 180.0, 0.002), ('a', 4, 1.0, 180.0, 360.0, 0.002)], False),
    # a grounded sloping wire in the vertical plane x = y (a quarter turn about z puts it into the plane x = -y: dx + dy = 0 exactly)
    'G28': ([('w', 3, (0.6, 0.6, 1.5), (0.0, 0.0, 0.0), 0.002)], True),
    # an inverted L entered top wire first: the second object is grounded at its FIRST end and meets the earlier object with its second
    'G29': ([('w', 3, (0.0, 0.0, 1.5), (1.4, 0.3, 1.6), 0.003),
             ('w', 3, (0.0, 0.0, 0.0), (0.0, 0.0, 1.5), 0.002)], True),
    # a helix of exactly two segments (three segment ends: a 3 x 3 array of points) continued by a wire from its last end
    'G30': ([('h', 2, 0.3, 0.6, 0.002, 0.3, 0.25), ('w', 3, (-0.3, 0.0, 0.3), (-0.5, 0.9, 0.8), 0.002)], False),
    # an L of two wires and a third wire whose end is 5 mm from the corner: ten junction tolerances away, NOT joined (segments 0.5 m)
    'G31': ([('w', 3, (0.0, 0.0, 0.5), (0.0, 0.0, 2.0), 0.002), ('w', 3, (0.0, 0.0, 2.0), (1.5, 0.0, 2.0), 0.002),
             ('w', 3, (0.0, 0.0, 2.005), (1.5, 0.0, 2.005), 0.002)], False),
    'G16': ([('w', 4, (0.2, 0.1, 2.0), (0.0, 0.0, 0.0), 0.002),
             ('w', 2, (0.2, 0.1, 2.0), (1.1, 0.4, 2.1), 0.003)], True),
}


def spec(name, seed=0, nmul=1, rmul=1):
    objs, gnd = CAT[name]
    if rmul != 1:
        ri = dict(w=4, a=5, h=4)
        objs = [o[:ri[o[0]]] + (o[ri[o[0]]] * rmul,) + o[ri[o[0]] + 1:] for o in objs]
    if nmul != 1:
        objs = [o[:1] + (o[1] * nmul,) + o[2:] for o in objs]
    if not seed:
        return objs, gnd
    rnd = random.Random('%s-%d' % (name, seed))
    s = 1 + 0.04 * (rnd.random() - 0.5)       # common factor keeps junctions coincident
    out = []
    for o in objs:
        if o[0] == 'w':
            o = o[:2] + (tuple(c * s for c in o[2]), tuple(c * s for c in o[3])) + o[4:]
        out.append(o)
    return out, gnd


def build(mm, name, seed=0, f=None, media='ideal', tags=None, nmul=1, rmul=1):
    if f is None:
        f = CAT_F.get(name, F0)
    """Returns a Mininec model of catalogue member `name` built with module namespace mm."""
    objs, gnd = spec(name, seed, nmul, rmul)
    geo = []
    for i, o in enumerate(objs):
        tag = None if tags is None else tags[i]
        if o[0] == 'w':
            w = mm.Wire(o[1], *o[2], *o[3], o[4], tag=tag)
            if len(o) > 5:
                w.segtype = o[5]
        elif o[0] == 'a':
            w = mm.Arc(o[1], o[2], o[3], o[4], o[5], tag=tag)
        else:
            w = mm.Helix(o[1], o[2], o[3], o[4], o[5], o[6], tag=tag)
        geo.append(w)
    med = None
    if gnd:
        med = [mm.Medium(0, 0)] if media == 'ideal' else media
    return mm.Mininec(f, geo, media=med)
