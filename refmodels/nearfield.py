"""Reference model: MININEC-3 near field written from pulse geometry only.

With A_n,k(x) = sum over the two halves h of pulse n of  psi(x; half-segment h, mirrored for the image
k = -1) * (kvec o t_h)   (t_h: unit flow direction ends[0] -> point -> ends[1]; radius and segment
length of the wire the half belongs to) and a virtual test dipole of length s0 = 0.001 lambda along
each axis i:

  E_i(x) = -j m / s0 * sum_n I_n sum_k k * { w^2/2 * 2 s0 * A_n,k(x)_i
              + [psi(x - s0/2 e_i; n, n+1) - psi(x + s0/2 e_i; n, n+1)] / len+
              + [psi(x + s0/2 e_i; n-1, n) - psi(x - s0/2 e_i; n-1, n)] / len- }
  H(x)   = 1 / (4 pi s0^2) * curl_by_central_differences( sum_n I_n sum_k k A_n,k ) * s0

(image terms dropped for pulses on the ground plane; both scaled with sqrt(P_req / P)).
`psi_fn` as in refmodels/mininec3.py (reduced kernel throughout: MININEC never uses the exact kernel
for field points)."""
import numpy as np
from .mininec3 import halves, on_ground, _f


def vec_pot(model, n, x, k, psi_fn):
    """A_n,k(x) as a list of three values in the arithmetic of psi_fn."""
    pn = model.pulses[n]
    hn = halves(pn)
    ptn = _f(pn.point)
    kvec = np.array([1.0, 1.0, float(k)])
    out = [0.0, 0.0, 0.0]
    for h in (0, 1):
        H = hn[h]
        if h == 0:
            a, b = ptn - H['t'] * H['len'] / 2, ptn
        else:
            a, b = ptn, ptn + H['t'] * H['len'] / 2
        ps = psi_fn(x, kvec * a, kvec * b, k, H['r'], H['len'], 0.5, 0)
        d = kvec * H['t']
        for c in range(3):
            if d[c] != 0:
                out[c] = out[c] + ps * float(d[c])
    return out


def fields(model, x, currents, psi_fn, f_e=1.0):
    """-> (E, H): lists of three values; currents: list of (symbolic or concrete) complex numbers."""
    x = _f(x)
    s0 = 0.001 * float(model.wavelen)
    w2 = float(model.w) ** 2 / 2
    mm_ = float(model.m)
    images = [1] if model.media is None else [1, -1]
    E = [0.0, 0.0, 0.0]
    kf = [[[0.0] * 3 for _ in range(3)] for _ in range(2)]
    eye = np.identity(3)
    for n, p in enumerate(model.pulses):
        I = currents[n]
        hn = halves(p)
        Hp, Hm = hn[1], hn[0]
        for k in images:
            if k < 0 and on_ground(p):
                continue
            kvec = np.array([1.0, 1.0, float(k)])
            A = vec_pot(model, n, x, k, psi_fn)
            for i in range(3):
                xm, xp = x - eye[i] * s0 / 2, x + eye[i] * s0 / 2
                u = (psi_fn(xm, kvec * Hp['a'], kvec * Hp['b'], k, Hp['r'], Hp['len'], 1.0, 1)
                     - psi_fn(xp, kvec * Hp['a'], kvec * Hp['b'], k, Hp['r'], Hp['len'], 1.0, 1)) * (1.0 / Hp['len'])
                u = u + (psi_fn(xp, kvec * Hm['a'], kvec * Hm['b'], k, Hm['r'], Hm['len'], 1.0, 1)
                         - psi_fn(xm, kvec * Hm['a'], kvec * Hm['b'], k, Hm['r'], Hm['len'], 1.0, 1)) * (1.0 / Hm['len'])
                term = u + A[i] * (w2 * 2 * s0)
                E[i] = E[i] + term * I * float(k)
                for j8, xx in ((0, xm), (1, xp)):
                    Ad = vec_pot(model, n, xx, k, psi_fn)
                    for c in range(3):
                        kf[j8][i][c] = kf[j8][i][c] + Ad[c] * I * float(k)
    E = [e * (-1j * mm_ / s0) * f_e for e in E]

    def dd(i, c):              # s0 * dA_c / dx_i
        return kf[1][i][c] - kf[0][i][c]
    h = [dd(1, 2) - dd(2, 1), dd(2, 0) - dd(0, 2), dd(0, 1) - dd(1, 0)]
    f_h = f_e / s0 / (4 * np.pi)
    H = [v * f_h for v in h]
    return E, H
