"""Wire-graph generator: every way of joining the 2*nw ends of nw wires into junction points
(every set partition of the labelled ends, hence every order and direction), optionally with
some points on the ground plane.  Points are in generic position (no axis-parallel wires, all
distances >= 0.9 m, so nothing but identical points is within the matching tolerance)."""
import itertools

PTS = [(0.13, 0.21, 1.07), (1.31, 0.42, 1.93), (0.37, 1.56, 2.71), (1.73, 1.91, 3.37),
       (-1.11, 0.83, 1.59), (-0.71, -1.37, 2.23), (2.57, -0.59, 2.89), (-1.93, 2.11, 3.61)]
GPTS = [(0.41, 0.27, 0.0), (1.83, -0.66, 0.0), (-1.27, 1.49, 0.0), (-0.57, -1.71, 0.0)]
RADII = [0.002, 0.003, 0.0025, 0.0035]


def partitions(items):
    if not items:
        yield []
        return
    first, rest = items[0], items[1:]
    for p in partitions(rest):
        for i in range(len(p)):
            yield p[:i] + [[first] + p[i]] + p[i + 1:]
        yield [[first]] + p


def topologies(nw, ground=False, nsegs=(2,), max_junction=5, connected_only=False):
    """Yield (wires, description).  wires = [(nseg, p1, p2, r)], in wire order.

    Ends are labelled (w, e); a partition block with >= 2 ends is a junction.  With ground,
    every subset of the singleton blocks may additionally be placed on the ground plane (each on
    its own ground point: a grounded end is never a junction)."""
    ends = [(w, e) for w in range(nw) for e in (0, 1)]
    for part in partitions(ends):
        if any(len(b) > max_junction for b in part):
            continue
        # a wire may not have both ends in one block; two wires may not share both ends
        bad = False
        blk = {}
        for bi, b in enumerate(part):
            for x in b:
                blk[x] = bi
        pairs = set()
        for w in range(nw):
            a, b = blk[(w, 0)], blk[(w, 1)]
            if a == b or (min(a, b), max(a, b)) in pairs:
                bad = True
                break
            pairs.add((min(a, b), max(a, b)))
        if bad:
            continue
        if connected_only and nw > 1 and not any(len(b) > 1 for b in part):
            continue
        part = sorted(part, key=lambda b: min(b))
        blk = {}
        for bi, b in enumerate(part):
            for x in b:
                blk[x] = bi
        singles = [bi for bi, b in enumerate(part) if len(b) == 1]
        gsets = [()]
        if ground:
            gsets = []
            for k in range(0, min(len(singles), len(GPTS)) + 1):
                for comb in itertools.combinations(singles, k):
                    # a wire may not have both ends grounded
                    ws = [part[bi][0][0] for bi in comb]
                    if len(set(ws)) == len(ws):
                        gsets.append(comb)
        for gs in gsets:
            pos = {}
            gi = 0
            for bi, b in enumerate(part):
                if bi in gs:
                    pos[bi] = GPTS[gi]
                    gi += 1
                else:
                    pos[bi] = PTS[bi]
            for ns in itertools.product(nsegs, repeat=nw):
                wires = []
                for w in range(nw):
                    wires.append((ns[w], pos[blk[(w, 0)]], pos[blk[(w, 1)]], RADII[w]))
                desc = dict(partition=[['w%de%d' % (w + 1, e + 1) for w, e in b] for b in part if len(b) > 1],
                            grounded=['w%de%d' % (part[bi][0][0] + 1, part[bi][0][1] + 1) for bi in gs],
                            nseg=list(ns))
                yield wires, desc


def build(mm, wires, ground=False, f=29.98, tags=None):
    geo = []
    for i, (ns, p1, p2, r) in enumerate(wires):
        geo.append(mm.Wire(ns, *p1, *p2, r, tag=None if tags is None else tags[i]))
    media = [mm.Medium(0, 0)] if ground else None
    return mm.Mininec(f, geo, media=media)
