"""Reference model for C10: the MININEC radiation sum written from pulse geometry only.

Each REAL half-segment h of pulse n carries the current moment I_n * v_h / 2 placed at the pulse
point p_n, v_h being the half's segment vector in the direction of pulse current flow
(point - ends[0] for the first half, ends[1] - point for the second).  Over ideal ground every
real half also radiates through its mirror image (mirrored position, horizontal components
reversed).  E_e = -j * g0 * (k/2) * sum_n I_n sum_h (v_h . e) exp(j k r.p_n),  e = theta^ or phi^.
Uses only pulse.point / .ends / .ground, the wave number and g0 = 29.979221.
"""
import math
import numpy as np

G0 = 29.979221


def directions(theta_deg, phi_deg):
    t, p = math.radians(theta_deg), math.radians(phi_deg)
    r = np.array([math.sin(t) * math.cos(p), math.sin(t) * math.sin(p), math.cos(t)])
    th = np.array([math.cos(t) * math.cos(p), math.cos(t) * math.sin(p), -math.sin(t)])
    ph = np.array([-math.sin(p), math.cos(p), 0.0])
    return r, th, ph


def coefficients(m, theta_deg, phi_deg):
    """Complex coefficients (a_theta[n], a_phi[n]) with E_e = sum_n a_e[n] * I_n  at r = 1 m."""
    k = 2 * math.pi / (299.8 / float(m.f))
    r, th, ph = directions(theta_deg, phi_deg)
    ground = m.media is not None
    mir = np.array([1.0, 1.0, -1.0])
    at, ap = [], []
    for p in m.pulses:
        pt = np.asarray(p.point, dtype=float)
        e0, e1 = np.asarray(p.ends[0], dtype=float), np.asarray(p.ends[1], dtype=float)
        ct = cp = 0j
        for h, v in ((0, pt - e0), (1, e1 - pt)):
            if ground and p.ground[h]:
                continue                      # the image half is produced by the mirror term below
            ph0 = np.exp(1j * k * float(np.dot(r, pt)))
            ct += np.dot(v, th) * ph0
            cp += np.dot(v, ph) * ph0
            if ground:
                vi = -v * mir                 # image current: horizontal reversed, vertical kept
                pi = pt * mir
                ph1 = np.exp(1j * k * float(np.dot(r, pi)))
                ct += np.dot(vi, th) * ph1
                cp += np.dot(vi, ph) * ph1
        f = -1j * G0 * k / 2
        at.append(f * ct)
        ap.append(f * cp)
    return at, ap
