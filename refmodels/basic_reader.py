"""Reference reader for C18: consumes the answers of a generated BASIC-MININEC input in the prompt
order of MININEC-3 (prompts as quoted in the comments of Mininec.as_basic_input and visible in
test/*.mini) and rebuilds frequency, environment, media, wires, sources and loads.

`num` converts one numeric answer (float for concrete text, a token reader for symbolic text)."""


class PromptError(Exception):
    pass


class Reader:
    def __init__(self, text, num=float, version='9'):
        self.lines = text.split('\n')
        self.i = 0
        self.num = num
        self.version = version
        self.log = []

    def ask(self, prompt):
        if self.i >= len(self.lines):
            raise PromptError('input exhausted at prompt %r' % prompt)
        a = self.lines[self.i]
        self.i += 1
        self.log.append((prompt, a))
        return a

    def nums(self, prompt, n):
        a = self.ask(prompt)
        f = a.split(',')
        if len(f) != n:
            raise PromptError('prompt %r needs %d values, got %r' % (prompt, n, a))
        return [self.num(x) for x in f]

    def integer(self, prompt):
        a = self.ask(prompt).strip()
        try:
            return int(a)
        except ValueError:
            raise PromptError('prompt %r needs an integer, got %r' % (prompt, a))

    def choice(self, prompt, allowed):
        a = self.ask(prompt).strip().upper()
        if a not in allowed:
            raise PromptError('prompt %r: answer %r not in %s' % (prompt, a, allowed))
        return a

    def read(self):
        m = {}
        self.choice('OUTPUT TO CONSOLE, PRINTER, OR DISK (C/P/D)', 'CPD')
        m['filename'] = self.ask('FILENAME (NAME.OUT)')
        m['f'], = self.nums('FREQUENCY (MHZ)', 1)
        env = self.ask('ENVIRONMENT (+1 FOR FREE SPACE, -1 FOR GROUND PLANE)').strip()
        if env not in ('+1', '1', '-1'):
            raise PromptError('environment answer %r' % env)
        m['ground'] = env == '-1'
        m['media'] = []
        if m['ground']:
            nm = self.integer('NUMBER OF MEDIA (0 FOR PERFECTLY CONDUCTING GROUND)')
            tb = 1
            for i in range(nm):
                med = {}
                if i == 0 and nm > 1:
                    tb = self.integer('TYPE OF BOUNDARY (1-LINEAR, 2-CIRCULAR)')
                    if tb not in (1, 2):
                        raise PromptError('boundary type %r' % tb)
                med['boundary'] = 'circular' if tb == 2 else 'linear'
                med['eps'], med['sigma'] = self.nums('RELATIVE DIELECTRIC CONSTANT, CONDUCTIVITY', 2)
                if i > 0:
                    med['height'], = self.nums('HEIGHT OF MEDIA', 1)
                elif nm > 1 and tb == 2:
                    med['nradials'] = self.integer('NUMBER OF RADIAL WIRES IN GROUND SCREEN')
                    if med['nradials']:
                        med['radius'], = self.nums('RADIUS OF RADIAL WIRES', 1)
                if i < nm - 1:
                    med['coord'], = self.nums('X OR R COORDINATE OF NEXT MEDIA INTERFACE', 1)
                m['media'].append(med)
        nw = self.integer('NO. OF WIRES')
        m['wires'] = []
        for w in range(nw):
            ns = self.integer('NO. OF SEGMENTS')
            e1 = self.nums('END ONE COORDINATES (X,Y,Z)', 3)
            e2 = self.nums('END TWO COORDINATES (X,Y,Z)', 3)
            r, = self.nums('RADIUS', 1)
            self.choice('CHANGE WIRE NO. (Y/N)', 'N')
            m['wires'].append((ns, e1, e2, r))
        self.choice('CHANGE GEOMETRY (Y/N)', 'N')
        ns = self.integer('NO. OF SOURCES')
        m['sources'] = []
        for s in range(ns):
            a = self.ask('PULSE NO., VOLTAGE MAGNITUDE, PHASE (DEGREES)').split(',')
            if len(a) != 3:
                raise PromptError('source line %r' % a)
            m['sources'].append((int(a[0]), self.num(a[1]), self.num(a[2])))
        nl = self.integer('NUMBER OF LOADS')
        m['loads'] = []
        if nl:
            is_s = self.choice('S-PARAMETER (S=jw) IMPEDANCE LOAD (Y/N)', 'YN') == 'Y'
            for l in range(nl):
                if is_s:
                    a = self.ask('PULSE NO., ORDER OF S-PARAMETER FUNCTION').split(',')
                    if len(a) != 2:
                        raise PromptError('S-parameter load line %r' % a)
                    pulse, order = int(a[0]), int(a[1])
                    num_, den_ = [], []
                    for d in range(order + 1):
                        b, a_ = self.nums('NUMERATOR, DENOMINATOR COEFFICIENTS OF S^%d' % d, 2)
                        # up to version 9 the BASIC program takes L, C in uH, uF: s is in 1e6 rad/s
                        fac = 10 ** (6 * d) if self.version == '9' else 1
                        num_.append(b / fac)
                        den_.append(a_ / fac)
                    m['loads'].append(('laplace', pulse, num_, den_))
                else:
                    a = self.ask('PULSE NO.,RESISTANCE,REACTANCE').split(',')
                    if len(a) != 3:
                        raise PromptError('load line %r' % a)
                    m['loads'].append(('impedance', int(a[0]), self.num(a[1]), self.num(a[2])))
        # command loop
        m['commands'] = []
        while True:
            c = self.choice('COMMAND', 'CPNQ')
            m['commands'].append(c)
            if c == 'Q':
                break
            if c == 'C':
                self.choice('SAVE CURRENTS TO A FILE (Y/N)', 'YN')
            elif c == 'P':
                dv = self.choice('CALCULATE PATTERN IN DBI OR VOLTS/METER (D/V)', 'DV')
                if dv == 'V':
                    while self.choice('CHANGE POWER LEVEL (Y/N)', 'YN') == 'Y':
                        self.nums('NEW POWER LEVEL (WATTS)', 1)
                    self.nums('RADIAL DISTANCE (METERS)', 1)
                self.nums('ZENITH ANGLE : INITIAL,INCREMENT,NUMBER', 3)
                self.nums('AZIMUTH ANGLE: INITIAL,INCREMENT,NUMBER', 3)
                if self.choice('FILE PATTERN (Y/N)', 'YN') == 'Y':
                    self.ask('FILENAME')
            elif c == 'N':
                self.choice('ELECTRIC OR MAGNETIC NEAR FIELDS (E/H)', 'EH')
                for ax in 'XYZ':
                    self.nums('%s-COORDINATE (M): INITIAL,INCREMENT,NUMBER' % ax, 3)
                while self.choice('CHANGE POWER LEVEL (Y/N)', 'YN') == 'Y':
                    self.nums('NEW POWER LEVEL (WATTS)', 1)
                self.choice('SAVE TO A FILE (Y/N)', 'YN')
        if self.i != len(self.lines) and any(l.strip() for l in self.lines[self.i:]):
            raise PromptError('%d unread answers after Q' % (len(self.lines) - self.i))
        return m
