"""Reference model: the published MININEC-3 impedance-matrix entry written from pulse geometry only.

A pulse is described by nothing but (ends[0], point, ends[1]), the radii of the wires its two
halves belong to, and whether it sits on the ground plane.  Current flows ends[0] -> point ->
ends[1]; the unit flow direction of half h is t_h.  For observer pulse m and source pulse n:

    Z[m][n] = sum over k in images of   k * ( w^2/2 * A_k(m; n) . l_m  +  U_k(m; n) )

    A_k  = sum_h  psi(point_m ; half-segment h of n, mirrored for k = -1) * (kvec o t_h)
    l_m  = (ends[1] - point) + (point - ends[0])            of the observer
    U_k  = [psi(m-1/2; n, n+1) - psi(m+1/2; n, n+1)] / len+  +  [psi(m+1/2; n-1, n) - psi(m-1/2; n-1, n)] / len-

with psi(obs; a, b) = s4 * (1/ub) integral_0^ub K(|a + t (b - a) - obs|) dt (+ closed forms for the
exact kernel, which never applies to pulses 2.5 segments apart), m+-1/2 the points half way to the
observer's segment midpoints, "n, n+1" the full segment point -> ends[1], len+- the two segment
lengths of the source.  The image term (k = -1) is dropped for source pulses on the ground plane.

`psi_fn(obs, a, b, k, r, seg_len, frac, fvs)` supplies psi: the atom table (stage 1, every value
of the integrals) or adaptive quadrature (the replay)."""
import numpy as np


def _f(x):
    return np.asarray(x, dtype=float)


def halves(p, independent=True):
    """The two halves of a pulse from geometry.  The far end of a half is NOT taken from the code's bookkeeping
    (`p.ends`) when the half lies on a real wire: it is the other end of the segment of that wire that touches the
    pulse point (for a half below the ground plane: the mirror image of it)."""
    pt, e0, e1 = _f(p.point), _f(p.ends[0]), _f(p.ends[1])
    ends = [e0, e1]
    tol = 1e-7 * max(float(np.linalg.norm(e1 - pt)), float(np.linalg.norm(pt - e0)), 1e-300)
    gnd = np.asarray(p.ground)
    for h in (0, 1):
        segs = getattr(p.geo[h], 'segments', None) if independent else None
        if not segs:
            continue
        cands = []
        for sg in segs:
            a, b = _f(sg.p1), _f(sg.p2)
            if np.linalg.norm(a - pt) <= tol:
                cands.append(b)
            elif np.linalg.norm(b - pt) <= tol:
                cands.append(a)
        if gnd[h]:
            cands = [c * np.array([1.0, 1.0, -1.0]) for c in cands]
        if len(cands) == 1:
            ends[h] = cands[0]
        elif len(cands) == 2 and p.geo[0] is p.geo[1]:
            # interior pulse (or grounded pulse: real segment and its image): keep the code's assignment if it is one of the two
            d = [float(np.linalg.norm(c - ends[h])) for c in cands]
            if min(d) > tol:
                ends[h] = cands[h]
    e0, e1 = ends
    out = []
    for h, (a, b) in enumerate(((e0, pt), (pt, e1))):
        v = b - a
        L = float(np.linalg.norm(v))
        r = p.geo[h].r
        out.append(dict(a=a, b=b, t=v / L, len=L, r=float(r) if isinstance(r, (int, float, np.floating)) else r))
    return out


def on_ground(p):
    return bool(np.asarray(p.ground).any())


def separation(pm, pn):
    """distance of the pulse centres in units of the longest of the four segment lengths"""
    L = max(h['len'] for h in halves(pm) + halves(pn))
    return float(np.linalg.norm(_f(pm.point) - _f(pn.point))) / L


def entry(model, m, n, psi_fn, images=None):
    """-> (value, terms): value = Z_ref[m][n] in the arithmetic of psi_fn's results; terms = list of
    the potential terms the entry is composed of (for the tolerance of the property)."""
    P = model.pulses
    pm, pn = P[m], P[n]
    w2 = float(model.w) ** 2 / 2
    hm, hn = halves(pm), halves(pn)
    ptm = _f(pm.point)
    lm = hm[0]['t'] * hm[0]['len'] + hm[1]['t'] * hm[1]['len']
    om = ptm - hm[0]['t'] * hm[0]['len'] / 2          # m - 1/2
    op = ptm + hm[1]['t'] * hm[1]['len'] / 2          # m + 1/2
    ptn = _f(pn.point)
    if images is None:
        images = [1] if model.media is None else [1, -1]
    tot = 0.0
    terms = []
    for k in images:
        if k < 0 and on_ground(pn):
            continue
        kvec = np.array([1.0, 1.0, float(k)])
        # vector potential of the two half-segments of n, observed at the centre of m
        acc = 0.0
        for h in (0, 1):
            H = hn[h]
            if h == 0:
                a, b = ptn - H['t'] * H['len'] / 2, ptn
            else:
                a, b = ptn, ptn + H['t'] * H['len'] / 2
            ps = psi_fn(ptm, kvec * a, kvec * b, k, H['r'], H['len'], 0.5, 0)
            coef = w2 * float((kvec * H['t']) @ lm)
            acc = acc + ps * coef
            terms.append(ps * coef)
        # scalar potentials of the two charged segments of n at m -+ 1/2
        u = 0.0
        Hp, Hm = hn[1], hn[0]
        for obs, sgn in ((om, 1.0), (op, -1.0)):
            ps = psi_fn(obs, kvec * Hp['a'], kvec * Hp['b'], k, Hp['r'], Hp['len'], 1.0, 1)
            u = u + ps * (sgn / Hp['len'])
            terms.append(ps * (sgn / Hp['len']))
        for obs, sgn in ((op, 1.0), (om, -1.0)):
            ps = psi_fn(obs, kvec * Hm['a'], kvec * Hm['b'], k, Hm['r'], Hm['len'], 1.0, 1)
            u = u + ps * (sgn / Hm['len'])
            terms.append(ps * (sgn / Hm['len']))
        tot = tot + (acc + u) * float(k)
    return tot, terms


# -- psi suppliers -----------------------------------------------------------------------------

def atom_psi(table, model, axioms=None, near_field=False):
    """psi over the atom table (reduced kernel only: the callers restrict themselves to pulse pairs
    for which the exact-kernel criterion t <= 1.1 cannot hold, and this is asserted).  With
    `axioms` (a list) the additivity of the integral over the two halves of every full-segment atom
    is appended to it as z3 constraints:  F = (Ha + Hb) / 2."""
    w = float(model.w)
    seen = set()

    def psi(obs, a, b, k, r, seg_len, frac, fvs):
        ra, rb = a - obs, b - obs
        t = (np.linalg.norm(ra) + np.linalg.norm(rb)) / seg_len
        if t <= 1.1 and not near_field:
            raise ValueError('reference psi asked for a pair within the exact-kernel range (t=%g)' % t)
        ai = table.atom_for(ra, rb, k, r, False, 1.0, w, args=(ra.copy(), rb.copy(), k, float(r), False, 1.0, w))
        if axioms is not None and frac == 1.0 and ai not in seen:
            seen.add(ai)
            mid = (ra + rb) / 2
            ha = table.atom_for(ra, mid, k, r, False, 1.0, w, args=(ra.copy(), mid.copy(), k, float(r), False, 1.0, w))
            hb = table.atom_for(mid, rb, k, r, False, 1.0, w, args=(mid.copy(), rb.copy(), k, float(r), False, 1.0, w))
            F, A, B = table.atoms[ai], table.atoms[ha], table.atoms[hb]
            axioms.append((F * 2).eq_t(A + B))
        return table.atoms[ai] * (w * frac * seg_len)
    return psi


def quad_psi(model, epsrel=1e-10):
    """psi by adaptive quadrature of the published reduced kernel exp(-j w R)/R, R^2 = rho^2 + a^2 for
    radii above the small-radius limit, R = rho below."""
    from scipy.integrate import quad
    w = float(model.w)
    srm = 1e-4 * float(model.wavelen)          # the small-radius limit from the CURRENT wavelength, not from the model's cached value

    def psi(obs, a, b, k, r, seg_len, frac, fvs):
        ra, rb = a - obs, b - obs
        a2 = r * r if r > srm else 0.0

        def kern(t, part):
            v = ra + (rb - ra) * t
            R = np.sqrt(v @ v + a2)
            z = np.exp(-1j * w * R) / R
            return z.real if part == 0 else z.imag
        re = quad(kern, 0, 1, args=(0,), epsrel=epsrel, epsabs=0, limit=200)[0]
        im = quad(kern, 0, 1, args=(1,), epsrel=epsrel, epsabs=0, limit=200)[0]
        return (re + 1j * im) * frac * seg_len
    return psi
