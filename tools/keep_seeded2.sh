#!/bin/sh
# usage: tools/keep_seeded2.sh <name> <property> <agent worktree>
# Confirms a seeded change in a scratch worktree of /repo (never in /repo itself): the demonstration passes on
# the unchanged tree, fails with the change, and the pinned test suite still passes with the change.  Stores
# patch.diff, demo.py, agent_notes.json and confirm.txt under seeded/<name>; removes the scratch worktree.
NAME=$1; P=$2; WT=$3
D=/verif/seeded/$NAME
S=/tmp/confirm_$NAME
mkdir -p $D
cp $WT/patch.diff $D/patch.diff; cp $WT/demo.py $D/demo.py; cp $WT/notes.json $D/agent_notes.json 2>/dev/null
git -C /repo worktree add --detach $S HEAD >/dev/null 2>&1 || { echo "cannot create $S"; exit 2; }
cd $S
PYTHONPATH=$S timeout 600 /venv/bin/python $D/demo.py > $S/demo_clean.log 2>&1; rc_clean=$?
git apply $D/patch.diff || { echo "patch does not apply"; git -C /repo worktree remove --force $S; exit 2; }
PYTHONPATH=$S timeout 600 /venv/bin/python $D/demo.py > $S/demo_mut.log 2>&1; rc_mut=$?
tail -3 $S/demo_mut.log
timeout 1500 /venv/bin/python -m pytest -q -p no:cacheprovider -q --deselect test/test_mininec.py::Test_Case_Known_Structure::test_vertical_ideal_ground_near > $S/tests_mut.log 2>&1; rc_t=$?
tail -1 $S/tests_mut.log
cd /; git -C /repo worktree remove --force $S
echo "$NAME: demo clean rc=$rc_clean, demo mutated rc=$rc_mut, tests with change rc=$rc_t"
echo "$rc_clean $rc_mut $rc_t" > $D/confirm.txt
