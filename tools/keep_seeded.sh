#!/bin/sh
# usage: tools/keep_seeded.sh <name> <property> <worktree>  -- confirm (tests pass, demo fails with / passes without) and store under seeded/<name>
NAME=$1; P=$2; WT=$3
D=/verif/seeded/$NAME
mkdir -p $D
cp $WT/patch.diff $D/patch.diff; cp $WT/demo.py $D/demo.py; cp $WT/notes.json $D/agent_notes.json 2>/dev/null
cd /repo; git diff --quiet || { echo "/repo dirty"; exit 2; }
PYTHONPATH=/repo /venv/bin/python $D/demo.py > /tmp/demo_clean.log 2>&1; rc_clean=$?
git apply $D/patch.diff || { echo "patch does not apply"; exit 2; }
PYTHONPATH=/repo /venv/bin/python $D/demo.py > /tmp/demo_mut.log 2>&1; rc_mut=$?
timeout 1500 /venv/bin/python -m pytest -q -p no:cacheprovider -q --deselect test/test_mininec.py::Test_Case_Known_Structure::test_vertical_ideal_ground_near > /tmp/tests_mut.log 2>&1; rc_t=$?
git checkout -- .
echo "$NAME: demo clean rc=$rc_clean, demo mutated rc=$rc_mut, tests with change rc=$rc_t"
echo "$rc_clean $rc_mut $rc_t" > $D/confirm.txt
