#!/usr/bin/env python3
"""usage: tools/mk_seed_prompts.py <suffix> <id> [<id> ...]  -- creates scratch worktrees /tmp/seed/<id><suffix> of /repo HEAD and
prompt files /tmp/seed/prompts/<id><suffix>.txt containing ONLY the property text (nothing from /verif)."""
import json, os, subprocess, sys
suffix = sys.argv[1]
import glob
props = {json.loads(l)['id']: json.loads(l) for l in open('/verif/properties.jsonl')}
os.makedirs('/tmp/seed/prompts', exist_ok=True)
for pid in sys.argv[2:]:
    p = props[pid]
    wt = '/tmp/seed/%s%s' % (pid, suffix)
    subprocess.run(['git', '-C', '/repo', 'worktree', 'add', '--detach', wt, 'HEAD'], capture_output=True)
    prev = []
    for d in sorted(glob.glob('/verif/seeded/%s-*/agent_notes.json' % pid)):
        try:
            prev.append('- ' + (json.load(open(d)).get('summary') or '')[:400].replace('\n', ' '))
        except Exception:
            pass
    avoid = ('\nEarlier seeded defects for this property used the following mechanisms -- choose a DIFFERENT mechanism and a different trigger (another function, another input class):\n' + '\n'.join(prev) + '\n') if prev else ''
    txt = f"""You are helping to evaluate a verification effort by producing a realistic *seeded defect*. You work ONLY inside the git worktree {wt} (a checkout of the Python package pymininec, a rewrite of the MININEC3 method-of-moments wire-antenna solver; the code is in {wt}/mininec/). Do not read or write anything under /verif or /repo, and do not look at other directories under /tmp/seed.

The property that must be broken:

TITLE: {p['title']}

STATEMENT: {p['statement']}

QUANTIFIED OVER: {p['quantifier']['text']}

CODE ANCHORS (line numbers approximate): {json.dumps(p['anchors']['mechanism'])}

Your task: make ONE small change to the source under {wt}/mininec/ (a few lines, the kind of slip a maintainer could make in a refactoring or an "optimisation") that breaks this property, while
  (1) the package still imports and the existing test suite still passes:  cd {wt} && /venv/bin/python -m pytest -q -p no:cacheprovider --deselect test/test_mininec.py::Test_Case_Known_Structure::test_vertical_ideal_ground_near    (takes about 1 minute; that one deselected test already fails on the unchanged code and is not part of the baseline; all others must pass);
  (2) the breakage needs something SPECIFIC to manifest -- an unusual input, a particular geometry/topology (e.g. a junction with a reversed wire, a wire grounded at its second end, different radii), a multi-step sequence of operations (e.g. a frequency sweep, two requests in a row), a particular option combination, or two cooperating sites that each look fine alone -- NOT something that ordinary use (a plain dipole) would expose at once. The golden-file tests pin ~50 ordinary antennas, so the change must leave all of those byte-identical.
Prefer a mechanism that is NOT the most obvious one for this property: think about which code paths the anchors list and pick a less travelled one.
{avoid}

Deliver, in {wt}/ :
  - patch.diff : output of `git diff` (relative to HEAD, applies with `git apply` at the repository root) containing ONLY the change to mininec/*.py;
  - demo.py : a small stand-alone program (run as `PYTHONPATH=<repo root> /venv/bin/python demo.py`, it must import mininec from PYTHONPATH, not from a hard-coded path) that evaluates the property's own sentence on a concrete input, exits 0 when the property holds (unchanged code) and exits 1 with a short message when it is violated (changed code). Keep its runtime under a minute;
  - notes.json : {{"summary": "...what was changed...", "needs": "...what it takes to manifest and what does NOT trigger it..."}}.
Verify yourself: demo.py exits 0 with the change reverted (git stash) and 1 with it applied; the test suite passes with the change applied. Leave the worktree with the change applied and the three files present (they are untracked files; do not commit). Report briefly what you changed and the verification results you observed."""
    open('/tmp/seed/prompts/%s%s.txt' % (pid, suffix), 'w').write(txt)
    print('ok', wt)
