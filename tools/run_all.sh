#!/bin/sh
# usage: tools/run_all.sh [tier] [ids...]  -- runs the registered checks one after another on the clean /repo, one summary line each
TIER=${1:-quick}; shift
IDS=${@:-C02 C03 C04 C05 C06 C07 C08 C09 C10 C11 C12 C13 C14 C15 C16 C17 C18 C19 C20}
cd /verif
git -C /repo diff --quiet || { echo "/repo not clean"; exit 2; }
for p in $IDS; do
  s=$(date +%s)
  timeout 7200 ./check $p --tier $TIER > /tmp/runall_$p.log 2>&1; rc=$?
  e=$(date +%s)
  echo "$p rc=$rc $((e-s))s viol=$(grep -c '^VIOLATION' /tmp/runall_$p.log) known=$(grep -c '^KNOWN-FINDING' /tmp/runall_$p.log) | $(tail -1 /tmp/runall_$p.log | cut -c1-170)"
done
