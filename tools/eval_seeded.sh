#!/bin/sh
# usage: tools/eval_seeded.sh <property id> <patch file (absolute)> [tier]
# applies the patch to /repo, runs the check, restores /repo AND the evidence file of the clean tree
P=$1; PATCH=$2; TIER=${3:-quick}
cd /repo || exit 2
git diff --quiet || { echo "/repo not clean"; exit 2; }
git apply "$PATCH" || { echo "patch does not apply"; exit 2; }
cd /verif
cp evidence/$P.json /tmp/evidence_$P.bak 2>/dev/null
timeout 900 ./check $P --tier $TIER > /tmp/seeded_$P.log 2>&1
rc=$?
git -C /repo checkout -- .
cp /tmp/evidence_$P.bak evidence/$P.json 2>/dev/null
rm -f replays/$P-*.json
echo "$P rc=$rc $(grep -c '^VIOLATION' /tmp/seeded_$P.log) violation lines; $(tail -1 /tmp/seeded_$P.log | cut -c1-160)"
grep "^  key=" /tmp/seeded_$P.log | sed 's/^  key=//' | cut -c1-200 | sort | uniq -c | sort -rn | head -3
