#!/usr/bin/env python3
"""Regenerates /verif/MANIFEST.json from the table below (kept in one place so the file stays valid)."""
import json, os
ROOT = os.path.dirname(os.path.dirname(os.path.abspath(__file__)))

TECH = 'bounded symbolic execution of the real Python source on z3-backed numbers (shadow modules), z3 decides per path; counterexamples replayed on the untouched package'
NOTE_COMMON = ('Trusted: z3 5.1.0, the symx value classes/numpy facade (validated by byte-identical concrete runs of the shadow vs the real '
               'package on test/*.pym), the short reference models in /verif/refmodels. Reals stand in for doubles except where stated. '
               'Bounds, stubs and what lies outside the claim are written into the evidence file by every run.')

CHECKS = {
 'C02': dict(
   text='Partial (assembly, kernel formula, Gauss exactness; the quadrature-accuracy clause is outside). The real matrix fill runs on concrete catalogue geometries (2x/3x segment counts, free space and ground, junctions of every end combination, tapered wire, arc, helix, leaning grounded wires) with every numerical integral replaced by an unknown complex number identified only by what the integral depends on; for every pair of pulses at least 2.5 segments apart z3 decides for ALL values of those unknowns (given additivity of an integral over its halves) that the entry is the published MININEC-3 combination written from pulse geometry alone, incl. the image term and its omission for pulses on the ground plane. A structural difference is replayed on the real code against adaptive quadrature with the 1e-4 tolerance of the property. Members are also filled twice at the same frequency and at a second frequency on the other side of the small-radius limit. The kernel clause evaluates the element under test alone and in a batch with a wire of the other radius class. The switches of the fill shortcut in the code itself run on ARBITRARY segment directions and lengths: a grounded pulse whose direction has any horizontal component is never treated as vertical, and "same direction" / "same length" is only answered for equal segments (one-sided; candidates replayed at the level of the sentence of the property).',
   design='DESIGN.md 3 (C02), 9',
   technique='symbolic execution of the real matrix fill with the numerical integration abstracted to uninterpreted integral-atoms (linear forms over atoms, z3 LRA decides equality with the reference for all atom values); Gauss exactness in LRA on symbolic polynomial coefficients; kernel formula by congruence over uninterpreted exp/sqrt; candidates replayed numerically on the untouched package'),
 'C03': dict(
   text='Partial (matrix, excitation, load and far-field algebra; the conditioning clause is outside). A catalogue antenna over ideal ground and the free-space pair of antenna + mirror image (built through the public API, grounded wires continued into their image) are filled over ONE table of unknown integrals; pulses are matched by position and flow direction. z3 decides for ALL values of the unknowns that every entry of the ground matrix is the block sum of the free-space matrix (image term, its omission on the plane), for all complex V and Z_L that sources/loads on the plane correspond to 2V / 2Z_L (half the impedance), and for all pulse currents that the far field over ground is that of antenna + image (+3.0103 dB with P_F = 2P). Structural differences are replayed by solving both models on the real code with the tolerance of the property.',
   design='DESIGN.md 3 (C03), 9',
   technique='symbolic execution of the real matrix fill / rhs / load / far-field code for two models over shared uninterpreted integral-atoms; z3 (LRA, polynomial identities) decides the block identities for all atom values, voltages, loads and currents; candidates replayed numerically on the untouched package'),
 'C04': dict(
   text='Partial (assembly of E and H from the potentials and the currents, power scaling; far-field limit, 376.7 ohm and transversality are outside). The real compute_near_field / nf_helper / psi_near_field_56 / psi run for observation points on catalogue geometries (straight, L joined end2-end1 / end1-end1 / end2-end2 with different radii and segment lengths, T, star, wires grounded at either end, tapered wire, arc, helix) with symbolic pulse currents and every numerical integral an unknown; z3 decides on the monomial relaxation that all six components equal the per-half assembly written from pulse geometry alone (own direction, radius, segment length per half; image terms; finite differences over 0.001 lambda) for ALL currents and ALL values of the integrals, and that fields scale with sqrt(P_req/P). Structural differences are replayed on the real code: solved currents, adaptive quadrature, 1 %. One finding (nf_helper second half) repaired.',
   design='DESIGN.md 3 (C04), 9',
   technique='symbolic execution of the real near-field code on symbolic currents over uninterpreted integral-atoms; z3 (LRA on the monomial relaxation of the bilinear forms) decides equality with the geometry-only reference for all values; candidates replayed numerically on the untouched package'),
 'C05': dict(
   text='Partial. Fill clause: base model, model moved through --geo-rotate/--geo-translate/--geo-scale (options given against their sort order, frequency divided by the scale) and model with reference-transformed coordinates, all from the real main(), are filled over ONE table of unknown integrals keyed by relative geometry in electrical units; z3 decides for ALL values of the integrals, V, Z_L and currents that options == coordinates, s*Z_moved = Z_base, s*rhs and s*load weight unchanged, and that the far field at the rotated azimuth is the base field times the translation phase; transformations are concrete and adversarial (100 wavelengths, negative coordinates, right and generic angles about three axes, a bare quarter turn of a wire in the plane x = y, scale 0.01/100 and a scale requested in two steps, per-tag; arcs and helices, incl. a helix of two segments, placed by the options only). Topology clause: the real Mininec.__init__ runs with a SYMBOLIC scale in [0.01,100], translation and rotation about Z; any branch feasible both ways (end matching, ground detection) is a dependence on placement or size and is replayed; per path the solver also decides whether the position of every pulse relative to a symbolic translation is constant (frame with a junction 0.0002 m above height 0 in free space: one genuine defect found and repaired). The 5e-4 rounding clause is outside.',
   design='DESIGN.md 3 (C05), 9',
   technique='symbolic execution of the real main()/matrix fill/rhs/far field for three models over shared uninterpreted integral-atoms (z3 LRA for all atom values, voltages, loads, currents); symbolic execution of Mininec.__init__ on z3-term coordinates with symbolic scale/translation/rotation (path enumeration, exact sqrt by defining equations); candidates replayed on the untouched package'),
 'C06': dict(
   text="Partial (reversal, reordering, splitting; the near field is decided per half-segment under C04 and as a relation between descriptions here). A catalogue structure and each re-description (every order of the wires, every choice of reversed wires; quick: a spread of the variants) are filled over ONE table of unknown integrals. From pulse geometry alone the reference computes the integer matrix C expressing the pulses of D' in those of D (signed permutation, or a change of basis at junctions of three or more wires). z3 decides for ALL values of the integrals that Z' = C Z C^T entry by entry, for all complex V, Z_L that sources/loads on common pulses carry the orientation sign, and for all currents that the far field of D' with I' is that of D with C^T I'. Splitting: a straight wire entered as two connected collinear pieces that keep the segment boundaries (in place, listed last, entered towards each other) gives the same number of unknowns and Z' = C Z C^T for every entry except the self term of the pulse at the new junction (exact against reduced kernel: two numerical integrals for one mathematical one), which is settled per case by the sentence on the real code. Members include tapered hubs joined end2-end2 / end1-end1. Structural differences are replayed by solving both descriptions on the real code (5e-4, condition-number clause).",
   design='DESIGN.md 3 (C06), 9',
   technique='symbolic execution of the real matrix fill / rhs / load / far-field code for two descriptions over shared uninterpreted integral-atoms; z3 (LRA) decides the congruence Z\' = C Z C^T and the rhs / far-field relations for all values; candidates replayed numerically on the untouched package'),
 'C07': dict(
   text='For all complex source voltages, all factors a, all frequencies and all non-singular system matrices up to 4x4 (larger: the concrete matrix of a catalogue member), homogeneity, superposition and the V/I, Re(VI*)/2 source data are decided by z3 as identities; bounded by the listed geometries and source placements. Also: one model object solved repeatedly with the excitation replaced or extended in between gives the currents of a fresh object, also with the real matrix fill (nothing stubbed) and a load of arbitrary impedance on the model. The -999 dBi cut-off of the table cuts off the same directions for every positive common factor (1e-20..1e20) on concrete generic currents.',
   design='DESIGN.md 3 (C07)'),
 'C09': dict(
   text='For every wire graph of the bound (all set partitions of the labelled ends of up to 3, thorough 4, wires; with and without ground) and ALL complex pulse currents, z3 decides that each printed junction-end current is the total through that end, that printed inflows sum to zero and that E lines sit exactly at free ends; the report is written twice on the same object for two independent sets of currents (second solution); a member with a wire end ten junction tolerances from a corner (not joined). One known finding (first-end star) is recorded.',
   design='DESIGN.md 3 (C09)'),
 'C10': dict(
   text='For all complex pulse currents in a box (three scales in the thorough tier), all positive powers, requested powers and distances and a symbolic azimuth, z3 decides on catalogue geometries (free space and ideal ground) that the far field is the MININEC radiation sum written from pulse geometry (linear real arithmetic), that dBi and V/m tables describe the same field, scale with sqrt(P_req/P)/r, repeat after 360 degrees in the azimuth and in the zenith angle and rotate rigidly at the zenith. Requests are 2x2 tables; the catalogue includes arrays of exactly vertical wires off the axis.',
   design='DESIGN.md 3 (C10)'),
 'C11': dict(
   text='Non-interference: with symbolic permittivity, conductivity, height and boundary the matrix fill (over unknown integrals), loads and right-hand side are the very terms of the ideal-ground model. Limits: the real-ground far-field formula at surface impedance 0 equals the ideal-ground formula for all pulse currents; Medium.impedance satisfies |z|^4 (eps^2 + sigma^2/t^2) = 1 and |z|^2 <= t/sigma for all eps, sigma, f (complex sqrt by its defining equations). Splitting: for ALL cut positions u (a linear boundary also at 0 and at negative x) and all currents a medium split into two with identical constants gives the same field (first/second/third of up to three media, only medium, linear and circular boundary, with and without radials where documented); a further medium with ARBITRARY constants beyond every reflection point is never selected. Each comparison reflection point > boundary forks, one path per assignment of pulses to media; z3 decides per path (LRA). Bounded by catalogue geometries, three directions and three concrete grounds.',
   design='DESIGN.md 3 (C11), 9'),
 'C12': dict(
   text='Wire end coordinates are solver variables (abstract length, generic position): for every feasible coincidence pattern of the ends of up to 3 (thorough 4) wires with 1..3 segments, with and without ground, count and numbering are compared with the topology formula and the placement of every pulse on its two segments is decided by z3 for all coordinates of the class; the 1/1000 matching tolerance is decided with the exact norm on two-wire frames (plain, chained, second wire moved into place by translate(), first wire tapered towards the junction end); the job pool has a hard wall budget. One genuine defect (shortest segment of a tapered wire) found and repaired.',
   design='DESIGN.md 3 (C12), 2.4'),
 'C17': dict(
   text='Tags (arbitrary integers or automatic), the per-object address (k,t) and the absolute pulse number are solver variables; on every path (tag order, validity class, addressed row) z3 decides in linear integer arithmetic that sources and loads act on exactly the row of the printed geometry table the user named, that invalid addresses are refused, that all/all,t load each pulse once and that the listings name the pulse; bounded by the listed models. The system matrix receives every attached load exactly once on the diagonal of its pulse with that pulse\'s weight, and a source named as (k,t) produces the excitation vector of the same source named by the absolute number. Command-line layer: the real main() on two --excitation-pulse options (per-object and absolute form, either order) with k, t, a as symbolic option text.',
   design='DESIGN.md 3 (C17)'),
 'C13': dict(
   text='For all wire lengths, radii and min/max limits satisfying the documented preconditions (segment count concrete: tapers n<=4 quick, <=10 thorough; plain wires, arcs, helices n<=40), z3 decides on every path of the real taper generators that the pieces tile the wire, are positive, respect min/max within the code slack, grow by <=2.1 and mirror; arc/helix ends lie on the documented curve at the documented angles (mixed integer/real for the turn count); rotation matrices are orthogonal with det +1; rotate/translate/scale act as documented. Wire level: the generator is handed the wire\'s own scaled / equivalent radius, end points, limits and tapered end (generator spied, symbolic radius and scale factor). Order and scope of the transformation options: the real main() runs on argument lists whose sort keys, translation vectors and scale factor are solver variables (six option combinations, tagged and untagged); the wires end where some order compatible with the keys puts them (equal keys leave the order open, every option acts), scale last and on the radius.',
   design='DESIGN.md 3 (C13)'),
 'C14': dict(
   text='One-step cache argument: after a visit at an arbitrary earlier frequency every load impedance (all load kinds, both evaluation orders at a junction of two different wires) equals that of a fresh model, decided by z3 for all frequencies and parameters over uninterpreted Bessel/log/sqrt; frequency/compute histories against a fresh model with an uninterpreted matrix fill, and with the REAL fill over unknown integrals for histories that cross the small-radius limit downwards, upwards and there and back; set iteration order is a solver variable for the option/report writers. Three findings repaired.',
   design='DESIGN.md 3 (C14)'),
 'C15': dict(
   text='main -> as_cmdline -> main on argument lists whose numeric fields (frequency, tags, complex voltages and loads, R/L/C, Laplace coefficients, conductivities, insulation, media constants, taper limits, transformation keys/vectors/scale) are solver variables; printf tokens fork on the sign so malformed text shows; z3 decides on every path that the written options are accepted and that the re-read model equals the first field by field to the printed precision. Bounded by the listed templates (incl. two rotations and a translation of one object with one and the same sort key). Five findings repaired.',
   design='DESIGN.md 3 (C15)'),
 'C16': dict(
   text='For all finite IEEE doubles start/increment in the stated ranges and each listed count, the table sizes are decided bit-precisely in QF_FP on the real grid construction and the point values under the standard model of floating-point arithmetic; far-field angle tables likewise; the points the report walks over (near_field_iter) are compared as well as the stored grid, for boxes and for scan lines n,1,1 / 1,n,1 / 1,1,n. Every table written from one computed pattern (dBi and V/m, in either order, twice) has N_theta x N_phi rows (structural obligation on concrete runs of the regenerated code).',
   design='DESIGN.md 3 (C16)',
   technique='symbolic execution of the real grid/angle code on z3 Float64 terms (counts, bit-precise) and on reals with per-operation rounding-error variables (values); z3 decides per count'),
 'C18': dict(
   text='The real BASIC-input writers run on symbolic voltages, loads, Laplace coefficients, frequency and media constants; a reference reader (validated on all 48 golden .mini files) consumes the answers in MININEC-3 prompt order; z3 decides for all values that frequency, media, sources (entered as complex voltage or as magnitude of either sign and phase; magnitude and phase in degrees rebuild the voltage the solver uses), loads and Laplace units (versions 9/12/13) are those of the model; wires rebuilt through the public API and by the BASIC rule (ends joined only when read as exactly equal, grounded only when Z is read as exactly 0; case with a grounded end whose height is a rounding residue) give the same pulses. Distributed (skin-effect, insulation) loads on a tapered wire: every pulse is written with its own value.',
   design='DESIGN.md 3 (C18)'),
 'C19': dict(
   text='util.format_float runs unstubbed on a symbolic real: for every real with 1e-30<=|f|<=1e12 (and 0), both modes and signs, z3 decides per path (decade, digit count, format) in mixed integer/real arithmetic that the text read back is within 5e-6 relative / 1e-6 absolute, at most 9 characters with a fraction, never -0. The report writers run on symbolic currents/voltages/fields: every printed number is the value its row is about and the report is structurally complete. Two open findings (V/m table precision). Load lines of distributed loads on unequal segments and junctions carry the impedance of their own pulse. Junction rows carry the current of their two-wire junction pulse at both wire ends. Every writer has been used once before on the same object for another solution.',
   design='DESIGN.md 3 (C19)'),
 'C20': dict(
   text='main() is executed symbolically up to the constructed model on argument lists whose numeric fields are solver variables over wide ranges (divisions fork on zero): on every path it ends in a model, a one-line diagnostic with 23, or the usage error for ALL values of that path. One solver-generated representative per path and the special classes nan/inf/0/negative/1e-300/1e300 of every field are run through the complete real program and classified by the trichotomy (this second part is path-guided generation, not a for-all verdict). 14 defects repaired, 19 recorded. Templates include two transformations with symbolic sort keys (equal-key path).',
   design='DESIGN.md 3 (C20)',
   technique='bounded symbolic execution of main() on token argument lists (z3 path enumeration, zero-divisor forks) + solver-generated representative per path replayed on the complete real program'),
 'C08': dict(
   text='For all load values, frequencies and (for the system-level clauses) all non-singular system matrices within the stated sizes, '
        'z3 finds no input for which a load deviates from the series element it describes; bounded by catalogue geometries and matrix size. The load is named by absolute pulse number or as pulse p of the object with tag t (tags with a gap); at matrix level: the load changes the diagonal entry of the feed pulse and no other, also on the second request of the same object with the real matrix fill. Distributed loads (skin effect by conductivity / resistivity, insulation) on a junction of two different wires and on a grounded wire: the load of a pulse is the sum over its CONDUCTOR halves (the image half of a grounded pulse is none; one genuine defect found there and repaired) of half length x per-length impedance of THAT half\'s wire, for all f, sigma, eps_r, every subset of loaded wires and both evaluation orders (Bessel/log/sqrt uninterpreted).',
   design='DESIGN.md 3 (C08)'),
}

NOT_APPLICABLE = {
 'C01': 'Power balance is a statement of numerical analysis about the moment-method discretisation and a spherical quadrature of a '
        'transcendental integrand; no installed solver (z3/cvc5, no delta-complete procedure) can decide it on the real code. Its algebraic '
        'ingredients are decided under C07, C08, C10, C03, C11.',
}

PENDING = 'check not built yet in this round (see DESIGN.md 6 for the order of work)'

def main():
    props = [json.loads(l)['id'] for l in open(os.path.join(ROOT, 'properties.jsonl'))]
    checks = []
    for pid in props:
        if pid in CHECKS:
            c = CHECKS[pid]
            checks.append(dict(
                property_id=pid,
                quick_cmd='./check %s --tier quick' % pid,
                thorough_cmd='./check %s --tier thorough' % pid,
                evidence_file='/verif/evidence/%s.json' % pid,
                replay_cmd_template='./check %s --replay {path}' % pid,
                engine='symx',
                level_claimed=dict(category='other', text=c['text'], design_ref=c['design']),
                level_note=c.get('note', NOTE_COMMON),
                technique=c.get('technique', TECH)))
    na = []
    for pid in props:
        if pid not in CHECKS:
            na.append(dict(property_id=pid, reason=NOT_APPLICABLE.get(pid, PENDING)))
    man = dict(
        version=1,
        setup_cmd='./setup.sh',
        hooks=dict(guard='PYMININEC_VERIF', enable='none needed: all instrumentation happens in shadow copies made at run time',
                   baseline_off_cmd='cd /repo && /venv/bin/python -m pytest -ra -q -p no:cacheprovider --timeout=900 --continue-on-collection-errors',
                   source_commits=[], add_only=True),
        engines=[dict(name='symx', path='/verif/symx', serves_properties=sorted(CHECKS),
                      kind_free_text='symbolic execution of the real Python source (AST-reloaded shadow modules, z3-backed number '
                                     'proxies that numpy treats as opaque objects, DFS over feasible paths); z3 decides each assertion')],
        checks=checks,
        notes='Solver-based checking of the real code; see DESIGN.md. Exit codes: 0 held / 1 VIOLATION / 2 harness error (no verdict).',
        not_applicable=na)
    with open(os.path.join(ROOT, 'MANIFEST.json'), 'w') as f:
        json.dump(man, f, indent=1)
    print('MANIFEST.json: %d checks, %d not applicable' % (len(checks), len(na)))

if __name__ == '__main__':
    main()
