"""C14 -- results depend only on the inputs: no history, no run-to-run variation.

(a) one-step cache argument: after an evaluation at an ARBITRARY earlier frequency f0, every load
    impedance at f must equal that of a fresh model (terms over the same uninterpreted Bessel/log
    functions; equality asked of the solver for all f0, f and load parameters);
(b) histories of frequency changes / compute / far-field requests on one model against a fresh
    model (system matrix = uninterpreted function of the wave number, so a stale matrix shows);
(c) run-to-run: the iteration order of every set of objects is arbitrary (solver-chosen
    permutation); the option file and the report must not depend on it.
"""
import itertools
from fractions import Fraction
import os
import subprocess
import sys
import time
import z3
import numpy as np

from .common import Check, run_check, prove_paths, close
import symx
from symx import SR, SC, SI, core, npf, tokens, shadow
from symx.core import eq_term
from refmodels import catalogue
from .c08 import pos

LOADKINDS = ['skin-c', 'skin-r', 'ins', 'rlc', 'trap', 'laplace', 'imp']


def _mk_loads(M, m, kinds, P):
    """Attach loads of the given kinds (parameters P: dict of symbolic/concrete values)."""
    out = []
    for kind in kinds:
        if kind in ('skin-c', 'skin-r'):
            for i, w in enumerate(m.geo):
                if kind == 'skin-c':
                    ld = M.Skin_Effect_Load(w, conductivity=P['sigma'][i], all_wires=True)
                else:
                    ld = M.Skin_Effect_Load(w, resistivity=P['rho'][i], all_wires=True)
                m.register_load(ld, None, w.tag)
                out.append(ld)
        elif kind == 'ins':
            for i, w in enumerate(m.geo):
                ld = M.Insulation_Load(w, P['insr'][i], P['eps'][i], all_wires=True)
                m.register_load(ld, None, w.tag)
                out.append(ld)
        elif kind == 'rlc':
            ld = M.Series_RLC_Load(P['R'], P['L'], P['C'])
            m.register_load(ld, 1)
            out.append(ld)
        elif kind == 'trap':
            ld = M.Trap_Load(P['R'], P['L'], P['C'])
            m.register_load(ld, 0)
            out.append(ld)
        elif kind == 'laplace':
            ld = M.Laplace_Load(a=[1.0, P['C']], b=[P['R'], P['L']])
            m.register_load(ld, 2)
            out.append(ld)
        elif kind == 'imp':
            ld = M.Impedance_Load(P['Z'])
            m.register_load(ld, 1)
            out.append(ld)
    m.fix_distributed_loads()
    return out


def _params(sym):
    if sym:
        return dict(sigma=[pos('sigma1', 1e3, 1e9), pos('sigma2', 1e3, 1e9)], rho=[pos('rho1', 1e-9, 1e-3), pos('rho2', 1e-9, 1e-3)],
                    insr=[0.004, 0.007], eps=[pos('eps1', 1.5, 80), pos('eps2', 1.5, 80)],
                    R=pos('R', 1e-3, 1e6), L=pos('L', 1e-9, 1e-3), C=pos('C', 1e-13, 1e-6), Z=SC.var('ZL'))
    return None


def _conc_params(c):
    return dict(sigma=[c['sigma1'], c['sigma2']], rho=[c['rho1'], c['rho2']], insr=[0.004, 0.007],
                eps=[c['eps1'], c['eps2']], R=c['R'], L=c['L'], C=c['C'], Z=complex(c['ZL']))


def _flat_inputs(P, **extra):
    d = dict(extra)
    d.update(sigma1=P['sigma'][0], sigma2=P['sigma'][1], rho1=P['rho'][0], rho2=P['rho'][1],
             eps1=P['eps'][0], eps2=P['eps'][1], R=P['R'], L=P['L'], C=P['C'], ZL=P['Z'])
    return d


def cache_combos(tier):
    combos = [('skin-c',), ('ins',), ('skin-r', 'ins'), ('rlc', 'trap', 'laplace', 'imp')]
    if tier == 'thorough':
        combos += [('skin-c', 'ins', 'rlc'), ('skin-r',)]
    out = []
    for kinds in combos:
        for order in ((0, 1), (1, 0)) if any(k in ('skin-c', 'skin-r', 'ins') for k in kinds) else ((0, 1),):
            out.append((kinds, order))
    return out


def load_caches(ck, sh, mm, kinds, order):
    """(a): every load impedance after a visit to f0 equals the fresh value at f."""
    M = sh.mininec
    for gname in ('G2', 'G4'):        # G4: the later wire meets the earlier one with its SECOND end: the junction pulse is the last one its load evaluates
        if True:
            def fn(kinds=kinds, order=order, gname=gname):
                f0, f = pos('f0', 0.1, 1000), pos('f', 0.1, 1000)
                P = _params(True)
                with symx.object_arrays():
                    hist = catalogue.build(M, gname, f=f0)
                    lh = _mk_loads(M, hist, kinds, P)
                    fresh = catalogue.build(M, gname, f=f)
                    lf = _mk_loads(M, fresh, kinds, P)
                    seq = [lh[i] for i in order if i < len(lh)] + lh[2:]
                    for ld in seq:                      # the visit at f0 (fills caches)
                        for p in ld.pulses:
                            ld.impedance(f0, p)
                    zh, zf = [], []
                    pairs = sorted(zip(lh, lf), key=lambda t_: seq.index(t_[0]))          # at f in the order of the visit as well
                    for ld_h, ld_f in pairs:
                        for p_h, p_f in zip(ld_h.pulses, ld_f.pulses):
                            zh.append(ld_h.impedance(f, p_h))
                            zf.append(ld_f.impedance(f, p_f))
                return dict(inputs=_flat_inputs(P, f0=f0, f=f), zh=zh, zf=zf)

            def goals(o):
                return [('load %d: impedance(f) after visiting f0 = fresh impedance(f)' % i, eq_term(a, b))
                        for i, (a, b) in enumerate(zip(o['zh'], o['zf']))]

            def replay(c, gname_, out, kinds=kinds, order=order, gname=gname):
                P = _conc_params(c)
                hist = catalogue.build(mm, gname, f=c['f0'])
                lh = _mk_loads(mm, hist, kinds, P)
                fresh = catalogue.build(mm, gname, f=c['f'])
                lf = _mk_loads(mm, fresh, kinds, P)
                seq = [lh[i] for i in order if i < len(lh)] + lh[2:]
                for ld in seq:
                    for p in ld.pulses:
                        ld.impedance(c['f0'], p)
                for ld_h, ld_f in sorted(zip(lh, lf), key=lambda t_: seq.index(t_[0])):
                    for p_h, p_f in zip(ld_h.pulses, ld_f.pulses):
                        a, b = ld_h.impedance(c['f'], p_h), ld_f.impedance(c['f'], p_f)
                        if not close(a, b, 1e-12, 1e-300):
                            cls = type(ld_h).__name__
                            return ('C14:load-cache:%s' % cls,
                                    '%s on pulse %d: impedance at %r MHz after a visit to %r MHz is %r, fresh model gives %r'
                                    % (cls, p_h.idx + 1, c['f'], c['f0'], a, b), dict(kind='load-cache', kinds=kinds, order=order))
                return None
            prove_paths(ck, 'cache-%s-%s-o%s' % (gname, '+'.join(kinds), ''.join(map(str, order))), fn, goals, replay, max_paths=64,
                        sqrt_mode='uf-free', timeout_ms=5000 if ck.tier == 'quick' else 30000)


def history_seqs(tier):
    seqs = [('f1', 'c', 'f2', 'c'), ('f1', 'c', 'c'), ('f1', 'f2', 'c'), ('f2', 'c', 'f1', 'c', 'f2', 'c')]
    if tier == 'thorough':
        seqs += [('f1', 'c', 'f2', 'c', 'f1', 'c'), ('f1', 'c', 'c', 'f2', 'f1', 'f2', 'c'), ('f2', 'c', 'f1', 'f2', 'c', 'c')]
    return seqs


def histories(ck, sh, mm, seqs):
    """(b): sequences over {set f_i; compute; far field} against a fresh model at the last frequency."""
    M = sh.mininec

    def stub_fill(m):
        def fill():
            n = len(m.pulses)
            Z = np.empty((n, n), dtype=object)
            for i in range(n):
                for j in range(n):
                    Z[i, j] = core.ufn_c('Zfill_%d_%d' % (i, j), m.w)
            m.Z = Z
        m.compute_impedance_matrix = fill

    for seq in seqs:
        def fn(seq=seq):
            f1, f2 = pos('f1', 0.1, 1000), pos('f2', 0.1, 1000)
            V = SC.var('V')
            symx.ctx().assume(z3.Or(V.nr != 0, V.ni != 0))
            R, L = pos('R', 1e-3, 1e6), pos('L', 1e-9, 1e-3)
            fv = dict(f1=f1, f2=f2)
            zen, azi = M.Angle(30.0, 25.0, 2), M.Angle(10.0, 40.0, 1)
            res = []
            with symx.object_arrays():
                for which in ('hist', 'fresh'):
                    last = [s for s in seq if s.startswith('f')][-1]
                    m = catalogue.build(M, 'G1', f=fv[seq[0]] if which == 'hist' else fv[last])
                    m = _three(M, m) if False else m
                    stub_fill(m)
                    m.register_source(M.Excitation(V), 1)
                    m.register_load(M.Series_RLC_Load(R, L), 1)
                    if which == 'hist':
                        for s in seq:
                            if s.startswith('f'):
                                m.f = fv[s]
                            elif s == 'c':
                                m.compute()
                            else:
                                m.compute_far_field(zen, azi)
                    else:
                        m.compute()
                        if 'pat' in seq[[i for i, s_ in enumerate(seq) if s_ == 'c'][-1]:]:
                            m.compute_far_field(zen, azi)
                    ff = getattr(m, 'far_field', None)
                    res.append(dict(Z=m.Z, rhs=m.rhs, I=m.current, zin=m.sources[0].impedance, power=m.power,
                                    et=None if ff is None else ff.e_theta, ep=None if ff is None else ff.e_phi))
            return dict(inputs=dict(f1=f1, f2=f2, V=V, R=R, L=L), res=res)

        def goals(o):
            h, f = o['res']
            n = len(h['rhs'])
            g = [('matrix incl. loads: off-diagonal entries', z3.And(*[eq_term(h['Z'][i][j], f['Z'][i][j]) for i in range(n) for j in range(n) if i != j]))]
            g += [('matrix incl. loads: diagonal entry %d' % i, eq_term(h['Z'][i][i], f['Z'][i][i])) for i in range(n)]
            g += [('right-hand side', z3.And(*[eq_term(h['rhs'][i], f['rhs'][i]) for i in range(n)])),
                  ('feed impedance', eq_term(h['zin'], f['zin'])),
                  ('power', eq_term(h['power'], f['power']))]
            if f['et'] is not None and h['et'] is not None:
                g.append(('far field', z3.And(*[eq_term(a, b) for a, b in zip(list(h['et'].reshape(-1)) + list(h['ep'].reshape(-1)),
                                                                       list(f['et'].reshape(-1)) + list(f['ep'].reshape(-1)))])))
            return g

        def replay(c, gname, out, seq=seq):
            fv = dict(f1=c['f1'], f2=c['f2'])
            zen, azi = mm.Angle(30.0, 25.0, 2), mm.Angle(10.0, 40.0, 1)
            obs = []
            for which in ('hist', 'fresh'):
                last = [s for s in seq if s.startswith('f')][-1]
                m = catalogue.build(mm, 'G1', f=fv[seq[0]] if which == 'hist' else fv[last])
                m.register_source(mm.Excitation(complex(c['V'])), 1)
                m.register_load(mm.Series_RLC_Load(c['R'], c['L']), 1)
                if which == 'hist':
                    for s in seq:
                        if s.startswith('f'):
                            m.f = fv[s]
                        elif s == 'c':
                            m.compute()
                        else:
                            m.compute_far_field(zen, azi)
                else:
                    m.compute()
                    m.compute_far_field(zen, azi)
                if not hasattr(m, 'far_field'):
                    m.compute_far_field(zen, azi)
                obs.append((m.Z.copy(), m.current.copy(), m.sources[0].impedance, m.far_field.e_theta.copy()))
            a, b = obs
            if not (np.array_equal(a[0], b[0]) and np.array_equal(a[1], b[1]) and a[2] == b[2] and np.array_equal(a[3], b[3])):
                return ('C14:history:' + '-'.join(seq), 'history %s: result differs from a fresh run at the last frequency '
                        '(Zin %r vs %r)' % ('-'.join(seq), a[2], b[2]), dict(kind='history', seq=seq))
            return None
        prove_paths(ck, 'history-' + '-'.join(seq), fn, goals, replay, max_paths=16, timeout_ms=5000 if ck.tier == 'quick' else 30000)


def _three(M, m):
    return m


def far_history(ck, sh, mm, gname, kind):
    """Far field over real ground after a far-field request at an earlier frequency equals the far field of
    a fresh model (pulse currents and power: uninterpreted functions of the wave number)."""
    M = sh.mininec

    def media(Mod):
        if kind == 'one':
            return [Mod.Medium(13.0, 0.005)]
        return [Mod.Medium(13.0, 0.005, nradials=8, radius=0.002, coord=5.0, boundary='circular'), Mod.Medium(5.0, 0.001, height=-0.5)]

    def fn():
        f1, f2 = pos('f1', 1, 100), pos('f2', 1, 100)
        res = []
        with symx.object_arrays():
            for which in ('hist', 'fresh'):
                m = catalogue.build(M, gname, f=f1 if which == 'hist' else f2, media=media(M))
                n = len(m.pulses)

                def setcur(m=m, n=n):
                    cur = np.empty(n, dtype=object)
                    for k in range(n):
                        cur[k] = core.ufn_c('I%d' % k, m.w)
                    m.current = cur
                    m.power = core.ufn('P', m.w)
                zen, azi = M.Angle(40.0, 10.0, 1), M.Angle(20.0, 10.0, 1)
                if which == 'hist':
                    setcur()
                    m.compute_far_field(zen, azi)
                    m.f = f2
                setcur()
                m.compute_far_field(zen, azi)
                res.append(m.far_field)
        return dict(inputs=dict(f1=f1, f2=f2), res=res)

    def goals(o):
        h, f = o['res']
        return [('far field after a request at f1 = fresh far field', z3.And(
            eq_term(h.e_theta[0][0], f.e_theta[0][0]), eq_term(h.e_phi[0][0], f.e_phi[0][0]),
            *[eq_term(a, b) if symx.is_sym(a) or symx.is_sym(b) else z3.BoolVal(a == b) for a, b in zip(h.gain[0][0], f.gain[0][0])]))]

    def replay(c, gn, out):
        zen, azi = mm.Angle(40.0, 10.0, 1), mm.Angle(20.0, 10.0, 1)
        obs = []
        for which in ('hist', 'fresh'):
            m = catalogue.build(mm, gname, f=c['f1'] if which == 'hist' else c['f2'], media=media(mm))
            m.register_source(mm.Excitation(1 + 0j), 1)
            if which == 'hist':
                m.compute()
                m.compute_far_field(zen, azi)
                m.f = c['f2']
            m.compute()
            m.compute_far_field(zen, azi)
            obs.append((m.far_field.e_theta.copy(), m.far_field.gain.copy()))
        if not (np.array_equal(obs[0][0], obs[1][0]) and np.array_equal(obs[0][1], obs[1][1])):
            return ('C14:far-field-history:real-ground', '%s over real ground: far field at %r MHz after a far-field request at %r MHz '
                    'is %r, a fresh model gives %r' % (gname, c['f2'], c['f1'], obs[0][0][0][0], obs[1][0][0][0]), dict(kind='far-history'))
        return None
    prove_paths(ck, 'far-history-%s-%s' % (gname, kind), fn, goals, replay, max_paths=16, fork_policy='assume',
                prefer_true=('compute_far_field',), sqrt_mode='uf-free', twin_timeout_ms=3000, external_twin=True, abstract_mul=True,
                timeout_ms=10000 if ck.tier == 'quick' else 60000)


def fill_history(ck, sh, mm, gname, seq):
    """The REAL matrix fill and the REAL near-field code with a history: one object goes through `seq` (c: matrix fill,
    n: near field, f2/f1: change of frequency), a fresh object is filled once at the last frequency.  Every numerical
    integral is an unknown (psi-atom stub), pulse currents are symbolic: the matrices agree entry by entry as linear forms
    and the field components as bilinear forms for ALL values -- a cached array that is modified in place, or a cached
    quantity that depends on the wavelength, makes them differ."""
    from symx import psistub, poly
    from . import psi_common as pc
    from refmodels import catalogue as cat
    from .c10 import _box_currents, _set_currents
    M = sh.mininec
    T = psistub.AtomTable()
    pc.install(M, T)
    F = dict(f1=29.98, f2=21.3, f3=12.0)          # f3: the 2 mm wires drop below 1e-4 wavelength (kernel class changes)
    x = np.array([1.3, -0.8, 2.5])

    def run(m, steps, I):
        nf = None
        for st in steps:
            if st == 'c':
                with symx.object_arrays():
                    m.compute_impedance_matrix()
            elif st == 'n':
                _set_currents(m, I)
                m.power = 1.0
                with symx.object_arrays():
                    m.compute_near_field(x, np.ones(3), np.ones(3, dtype=int))
                nf = (list(m.e_field[0]), list(m.h_field[0]))
            else:
                m.f = F[st]
        return nf

    def fn():
        c = symx.ctx()
        hist = cat.build(M, gname, f=F['f1'])
        n = len(hist.pulses)
        I = _box_currents(n, 1.0)
        last = [st for st in seq if st in F][-1] if any(st in F for st in seq) else 'f1'
        nf_h = run(hist, seq, I)
        fresh = cat.build(M, gname, f=F[last])
        nf_f = run(fresh, [st for st in ('c', 'n') if st in seq], I)
        for a in pc.additivity_axioms(T):
            c.axiom(a)
        for b in T.box(1.0):
            c.assume(b)
        return dict(inputs=dict(I=I), Zh=hist.Z, Zf=fresh.Z, nf_h=nf_h, nf_f=nf_f, n=n)

    def goals(o):
        n = o['n']
        g = [('matrix after the history = matrix of a fresh model', z3.And(*[pc.close_goal(o['Zh'][i][j], o['Zf'][i][j]) for i in range(n) for j in range(n)]))]
        if o['nf_h'] is not None:
            for nm, a_, b_ in (('E', o['nf_h'][0], o['nf_f'][0]), ('H', o['nf_h'][1], o['nf_f'][1])):
                for k, ax in enumerate('xyz'):
                    a, b = SC.lift(a_[k]), SC.lift(b_[k])
                    d = a - b
                    tot = Fraction(0)
                    for part_ in (b.nr, b.ni):
                        tot += sum(abs(v) for v in poly.expand(part_).values())
                    g.append(('near field %s_%s after the history = that of a fresh model' % (nm, ax),
                              z3.Not(poly.relaxation_query([d.nr, d.ni], {}, tot * Fraction(1, 10 ** 9) + Fraction(1, 10 ** 30), default=1))))
        return g

    def replay(conc, gn, out):
        I = np.array([complex(v) for v in conc['I']])
        if np.abs(I).max() < 1e-6:          # the relaxed query does not constrain the currents: use generic ones
            I = np.array([complex(1 + 0.3 * k, 0.5 - 0.2 * k) for k in range(len(I))])
        last = [st for st in seq if st in F][-1] if any(st in F for st in seq) else 'f1'

        def runr(m, steps):
            nf = None
            for st in steps:
                if st == 'c':
                    m.compute_impedance_matrix()
                elif st == 'n':
                    m.current, m.power = I, 1.0
                    m.compute_near_field(x, np.ones(3), np.ones(3, dtype=int))
                    nf = np.concatenate([m.e_field[0], m.h_field[0]])
                else:
                    m.f = F[st]
            return nf
        hist = cat.build(mm, gname, f=F['f1'])
        nh = runr(hist, seq)
        fresh = cat.build(mm, gname, f=F[last])
        nfr = runr(fresh, [st for st in ('c', 'n') if st in seq])
        if np.abs(hist.Z - fresh.Z).max() > 1e-9 * np.abs(fresh.Z).max():
            i, j = np.unravel_index(np.argmax(np.abs(hist.Z - fresh.Z)), fresh.Z.shape)
            return ('C14:fill-history:%s' % ('ground' if hist.media is not None else 'free'),
                    '%s after the sequence %s: Z[%d][%d] = %r, a fresh model at %g MHz gives %r' % (gname, '-'.join(seq), i, j, hist.Z[i, j], F[last], fresh.Z[i, j]),
                    dict(kind='fill-history', geometry=gname, seq=list(seq)))
        if nh is not None and np.abs(nh - nfr).max() > 1e-9 * np.abs(nfr).max():
            return ('C14:near-field-history', '%s after the sequence %s: near field %s, a fresh model at %g MHz gives %s'
                    % (gname, '-'.join(seq), np.array2string(nh[:3], precision=5), F[last], np.array2string(nfr[:3], precision=5)),
                    dict(kind='near-field-history', geometry=gname, seq=list(seq)))
        return None
    prove_paths(ck, 'fill-history-%s-%s' % (gname, '-'.join(seq)), fn, goals, replay, max_paths=4, fork_policy='assume', twin_timeout_ms=20000,
                timeout_ms=30000 if ck.tier == 'quick' else 120000)


def run_to_run(ck, sh, mm, names):
    """(c): option file and load listing must not depend on the iteration order of object sets."""
    M = sh.mininec
    cases = {
        'attach-2-of-3': ['-f', '7', '-w', '2,0,0,0,1,0.1,0.2,0.001', '-w', '2,1,0.1,0.2,2,0.5,0.3,0.001',
                          '-w', '2,2,0.5,0.3,3,2,0.4,0.001', '--load=50+3j', '--attach-load=1,all,1',
                          '--attach-load=1,all,3', '--excitation-pulse=1'],
        'attach-3-of-4': ['-f', '7', '-w', '2,0,0,0,1,0.1,0.2,0.001', '-w', '2,1,0.1,0.2,2,0.5,0.3,0.001',
                          '-w', '2,2,0.5,0.3,3,2,0.4,0.001', '-w', '1,3,2,0.4,4,2,1,0.001', '--rlc-load=1,1e-6,',
                          '--attach-load=1,all,1', '--attach-load=1,all,2', '--attach-load=1,all,4', '--excitation-pulse=1'],
        'skin+ins': ['-f', '7', '-w', '2,0,0,0,1,0.1,0.2,0.001', '-w', '2,1,0.1,0.2,2,0.5,0.3,0.001',
                     '--skin-effect-conductivity=1e6', '--insulation-load=0.002,3,2', '--excitation-pulse=1'],
        # the complete report with several print options (a set of strings: its order follows the per-process hash seed)
        'report-options': ['-f', '7', '-w', '4,0,0,0,1,0.1,2,0.001', '--excitation-pulse=2', '--theta=10,40,2', '--phi=0,90,2',
                           '--near-field=1,1,1,1,1,1,1,1,2', '--option=far-field', '--option=far-field-absolute', '--option=near-field'],
    }
    for name in names:
        argv = cases[name]

        def fn(argv=argv, name=name):
            shadow.set_state.sym_order = True
            try:
                m = M.main(list(argv), return_mininec=True)
                if not hasattr(m, 'as_cmdline'):
                    raise symx.HarnessError('main returned %r' % (m,))
                report = ''
                if name == 'report-options':
                    shadow.set_state.sym_order = False
                    m.compute()
                    m.compute_far_field(M.Angle(10.0, 40.0, 2), M.Angle(0.0, 90.0, 2))
                    m.compute_near_field([1.0, 1.0, 1.0], [1.0, 1.0, 1.0], [1, 1, 2])
                    shadow.set_state.sym_order = True
                    opts = M.__dict__['set'](('far-field', 'far-field-absolute', 'near-field'))
                    report = m.as_mininec(opts)
                return dict(inputs={}, text=m.as_cmdline(), text_geo=m.as_cmdline(load_by_geo=True),
                            loads=m.loads_as_mininec() + report)
            finally:
                shadow.set_state.sym_order = False

        paths = symx.explore(fn, max_paths=400, query_timeout_ms=5000)
        ck.account(paths)
        texts = {}
        for p in paths:
            if p.exc is not None:
                raise symx.HarnessError('run-to-run %s: %r' % (name, p.exc)) from p.exc
            texts.setdefault((p.value['text'], p.value['text_geo'], p.value['loads']), 0)
            texts[(p.value['text'], p.value['text_geo'], p.value['loads'])] += 1
        on = 'run-to-run/%s/%d set orders' % (name, len(paths))
        ck.twin('run-to-run-' + name, len(paths) > 0)
        sample = dict(obligation=on, symbolic_inputs='iteration order of every set of objects (solver-chosen permutations)',
                      orders_explored=len(paths), distinct_texts=len(texts))
        if len(texts) == 1:
            ck.record(on, 'discharged', sample=sample)
            continue
        # candidate: replay = the same command line in fresh processes
        outs = set()
        if name == 'report-options':
            code = ("import sys; sys.path.insert(0, %r); from mininec.mininec import main; main(%r)" % (shadow.REPO, list(argv)))
        else:
            code = ("import sys; sys.path.insert(0, %r); from mininec.mininec import main; "
                    "m = main(%r, return_mininec=True); sys.stdout.write(m.as_cmdline())" % (shadow.REPO, list(argv)))
        for i in range(12):
            env = dict(os.environ, PYTHONHASHSEED=str(i))          # fresh processes differ in their string-hash seed
            r = subprocess.run(['/venv/bin/python', '-c', code], capture_output=True, text=True, timeout=120, env=env)
            outs.add(r.stdout)
        if len(outs) > 1:
            v = ck.report_violation('C14:run-to-run:report:set-order' if name == 'report-options' else 'C14:run-to-run:as_cmdline:set-order',
                                    '%s: %d different %s from 12 runs of the same command line' % (name, len(outs), 'reports' if name == 'report-options' else 'option files'),
                                    dict(kind='run-to-run', argv=argv))
            ck.record(on, v, sample=sample)
        else:
            ck.record(on, 'spurious', detail='text depends on a set order in the model, 12 fresh processes agreed', sample=sample)


def main(args):
    ck = Check('C14', args)
    ck.shadow_stats = symx.load().stats
    parts = [('load_caches', (k, o)) for k, o in cache_combos(ck.tier)]
    parts += [('histories', ([sq],)) for sq in history_seqs(ck.tier)]
    rnames = ['attach-2-of-3', 'attach-3-of-4', 'skin+ins', 'report-options'] if ck.tier == 'thorough' else ['attach-2-of-3', 'skin+ins', 'report-options']
    parts += [('run_to_run', ([n],)) for n in rnames]
    parts += [('far_history', ('G14', 'one')), ('far_history', ('G7', 'radials'))]
    # f3: below the small-radius limit of the 2 mm wires; the limit is crossed downwards (f1 -> f3), upwards (f3 -> f1) and there and back
    fseqs = [('c', 'c'), ('c', 'f2', 'c'), ('c', 'n', 'f2', 'c', 'n'), ('c', 'f3', 'c'), ('f3', 'c', 'f1', 'c'), ('c', 'f3', 'c', 'n', 'f1', 'c', 'n')]
    fgeo = ('G8', 'G2') if ck.tier == 'quick' else ('G8', 'G2', 'G9', 'G16', 'G11')
    parts += [('fill_history', (g, sq)) for g in fgeo for sq in fseqs]
    from .common import run_parallel
    run_parallel(ck, 'checks.c14', parts)
    ck.assumptions += ['Bessel functions, log, complex square root: uninterpreted functions / defining equations (so equal '
                       'arguments give equal values and nothing else is assumed)',
                       'system matrix fill = an uninterpreted complex function of (row, column, wave number): a matrix kept '
                       'from an earlier frequency is distinguishable from a fresh one',
                       'iteration order of a set of non-integer objects is arbitrary (<= 4 elements)',
                       'one-step argument: caches are filled by ONE earlier visit at an arbitrary f0; longer histories are '
                       'covered because every cache is then either overwritten or frequency-free',
                       'geometry G2 (two wires of different radius joined) for loads, G1 for histories']
    ck.stubs += ['compute_impedance_matrix -> uninterpreted function of the wave number (histories)',
                 'set -> arbitrary iteration order (run-to-run)', 'np.linalg.solve -> exact Cramer']
    ck.outside += ['nondeterminism inside BLAS/LAPACK threads', 'near-field requests in histories (field kernels are C04)',
                   'far-field histories use currents/power that are uninterpreted functions of the wave number (the solve is not repeated there)',
                   'timing/date output options']
    return ck.finish('Real load classes with their caches, the f setter, compute and compute_far_field executed on symbolic '
                     'frequencies/parameters after an arbitrary earlier visit; equality with a fresh model decided by z3. '
                     'Set iteration order made a solver variable for the text writers.')


if __name__ == '__main__':
    run_check('C14', main)
