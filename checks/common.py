"""Shared harness plumbing: obligations, solver queries, replays, known findings, evidence."""
import argparse
import hashlib
import json
import os
import sys
import time
import traceback

import z3

HERE = os.path.dirname(os.path.abspath(__file__))
ROOT = os.path.dirname(HERE)
if ROOT not in sys.path:
    sys.path.insert(0, ROOT)

import symx  # noqa: E402
from symx import core  # noqa: E402

EXIT_OK, EXIT_VIOLATION, EXIT_HARNESS = 0, 1, 2


class ExpectedRefusal(Exception):
    """A documented refusal of the input (ValueError with a known message): the path ends, nothing to assert."""


def laplace_load(M, a, b):
    """Laplace_Load(a, b); the documented refusal of an all-zero denominator ends the path."""
    try:
        return M.Laplace_Load(a=a, b=b)
    except ValueError as e:
        if 'denominator' in str(e):
            raise ExpectedRefusal(str(e))
        raise
VERBOSE = bool(os.environ.get('VERIF_VERBOSE'))


def parse_args(pid, argv=None):
    ap = argparse.ArgumentParser(prog='check ' + pid)
    ap.add_argument('--tier', default=os.environ.get('VERIF_TIER', 'quick'),
                    choices=['quick', 'thorough'])
    ap.add_argument('--replay', default=None)
    ap.add_argument('--seed', type=int, default=int(os.environ.get('VERIF_SEED', '0') or 0))
    return ap.parse_args(argv)


def checked(solver, timeout_ms):
    """solver.check() with a watchdog: z3 does not always honour its own timeout on mixed
    UF / nonlinear problems, Z3_interrupt from a timer thread does."""
    import threading
    done = threading.Event()

    def fire():
        if not done.is_set():
            try:
                solver.interrupt()
            except Exception:
                pass
    tm = threading.Timer(timeout_ms / 1000.0 + 2.0, fire)
    tm.daemon = True
    tm.start()
    try:
        try:
            return solver.check()
        except z3.Z3Exception:
            return z3.unknown
    finally:
        done.set()
        tm.cancel()


class Check:
    def __init__(self, pid, args, functions_planned=(), sub=False):
        self.sub = sub
        if not sub:
            global LAST_CHECK
            LAST_CHECK = self
        self.pending = []
        self.expected_exc_paths = {}
        self.pid = pid
        self.args = args
        self.tier = args.tier
        self.seed = args.seed
        self.t0 = time.time()
        self.obls = []           # dicts
        self.samples = []
        self.violations = []     # reproduced, not known
        self.known_hits = []
        self.assumptions = []
        self.bounds = {}
        self.stubs = []
        self.outside = []
        self.solver_s = 0.0
        self.queries = 0
        self.paths = 0
        self.paths_truncated = 0
        self.twins = {}
        self.functions = set()
        self.notes = []
        self.shadow_stats = None
        with open(os.path.join(ROOT, 'known_findings.json')) as f:
            self.known = [k for k in json.load(f)['findings'] if k['property'] == pid]

    # -- solver ---------------------------------------------------------------
    def decide(self, name, premises, negated_goal, timeout_ms=None, sample=None):
        """Ask z3 whether premises /\\ negated_goal is satisfiable.

        Returns (verdict, model) with verdict in 'unsat' | 'sat' | 'unknown'.
        """
        if timeout_ms is None:
            timeout_ms = 10000 if self.tier == 'quick' else 120000
        s = z3.Solver()
        s.set('timeout', timeout_ms)
        for p in premises:
            s.add(p)
        s.add(negated_goal)
        t = time.time()
        r = s.check()
        dt = time.time() - t
        self.solver_s += dt
        self.queries += 1
        v = str(r)
        if VERBOSE:
            print('  [%6.2fs] %-8s %s' % (dt, v, name), flush=True)
        model = s.model() if v == 'sat' else None
        return v, model

    def decide_external(self, name, premises, timeout_s=3):
        """Satisfiability of the premises by the z3 command-line binary under a HARD wall-clock limit
        (in-process z3 does not always honour its timeout on mixed UF/nonlinear premises).
        -> 'sat' | 'unsat' | 'unknown'"""
        import subprocess
        s = z3.Solver()
        for p in premises:
            s.add(p)
        smt = s.to_smt2()
        t = time.time()
        try:
            r = subprocess.run(['z3-new', '-T:%d' % timeout_s, '-in'], input=smt, capture_output=True, text=True,
                               timeout=timeout_s + 5)
            out = r.stdout.strip().split('\n')[0] if r.stdout.strip() else 'unknown'
        except (subprocess.TimeoutExpired, FileNotFoundError):
            out = 'unknown'
        dt = time.time() - t
        self.solver_s += dt
        self.queries += 1
        if out not in ('sat', 'unsat'):
            out = 'unknown'
        if VERBOSE:
            print('  [%6.2fs] %-8s %s (external)' % (dt, out, name), flush=True)
        return out

    def decide_cli(self, name, premises, negated_goal, timeout_s=10):
        """Like decide(), but by the z3 command-line binary under a hard wall-clock limit; the model
        comes back as {constant name: float or int} (algebraic numbers by their decimal approximation)."""
        import subprocess
        s = z3.Solver()
        for p in premises:
            s.add(p)
        s.add(negated_goal)
        smt = s.to_smt2() + '\n(get-model)\n'
        t = time.time()
        try:
            r = subprocess.run(['z3-new', '-T:%d' % timeout_s, 'pp.decimal=true', 'pp.decimal_precision=30', '-in'],
                               input=smt, capture_output=True, text=True, timeout=timeout_s + 5)
            txt = r.stdout
        except (subprocess.TimeoutExpired, FileNotFoundError):
            txt = 'unknown'
        dt = time.time() - t
        self.solver_s += dt
        self.queries += 1
        first = txt.strip().split('\n')[0].strip() if txt.strip() else 'unknown'
        v = first if first in ('sat', 'unsat') else 'unknown'
        if VERBOSE:
            print('  [%6.2fs] %-8s %s (cli)' % (dt, v, name), flush=True)
        model = parse_cli_model(txt) if v == 'sat' else None
        return v, model

    def record(self, name, verdict, detail=None, sample=None):
        """verdict: discharged | violation | known | spurious | inconclusive"""
        self.obls.append(dict(name=name, verdict=verdict, detail=detail))
        if sample is not None and len(self.samples) < 12:
            self.samples.append(sample)

    def twin(self, name, reachable):
        """Reachability twin: the same premises with goal False must be sat."""
        self.twins[name] = bool(reachable)

    def account(self, paths):
        self.paths += len(paths)
        self.solver_s += paths.solver_s
        self.queries += paths.queries
        if paths.truncated:
            self.paths_truncated += 1

    # -- violations --------------------------------------------------------------
    def report_violation(self, key, what, replay):
        """A violation that REPRODUCED on the real code.  key identifies call site + input class."""
        if self.sub:
            self.pending.append((key, what, replay))
            return 'pending:%d' % (len(self.pending) - 1)
        for k in self.known:
            if k['status'] == 'open' and k['key'] == key:
                line = 'KNOWN-FINDING: property=%s %s' % (self.pid, k['what'])
                if line not in self.known_hits:
                    self.known_hits.append(line)
                    print(line, flush=True)
                return 'known'
        for v in self.violations:
            if v['key'] == key and v['what'] == what:
                return 'violation'        # same violation reached through another obligation: one line is enough
        h = hashlib.sha1(json.dumps(replay, sort_keys=True, default=str).encode()).hexdigest()[:10]
        path = os.path.join(ROOT, 'replays', '%s-%s.json' % (self.pid, h))
        os.makedirs(os.path.dirname(path), exist_ok=True)
        with open(path, 'w') as f:
            json.dump(dict(property=self.pid, key=key, what=what, tier=self.tier, replay=replay), f, indent=1,
                      default=str)
        self.violations.append(dict(key=key, what=what, replay=path))
        print('VIOLATION property=%s replay=%s' % (self.pid, path), flush=True)
        print('  key=%s: %s' % (key, what), flush=True)
        return 'violation'

    # -- parallel sub-checks -----------------------------------------------------
    def export(self):
        return dict(obls=self.obls, samples=self.samples, pending=self.pending, solver_s=self.solver_s,
                    queries=self.queries, paths=self.paths, paths_truncated=self.paths_truncated, twins=self.twins,
                    expected_exc_paths=self.expected_exc_paths,
                    functions=sorted(self.functions), bounds=self.bounds, notes=self.notes)

    def merge(self, st):
        verdicts = {}
        for i, (key, what, replay) in enumerate(st['pending']):
            verdicts['pending:%d' % i] = self.report_violation(key, what, replay)
        for o in st['obls']:
            o = dict(o)
            o['verdict'] = verdicts.get(o['verdict'], o['verdict'])
            self.obls.append(o)
        for smp in st['samples']:
            if len(self.samples) < 12:
                if isinstance(smp, dict) and smp.get('verdict') in verdicts:
                    smp = dict(smp, verdict=verdicts[smp['verdict']])
                self.samples.append(smp)
        self.solver_s += st['solver_s']
        self.queries += st['queries']
        self.paths += st['paths']
        self.paths_truncated += st['paths_truncated']
        self.twins.update(st['twins'])
        for k, v in st.get('expected_exc_paths', {}).items():
            self.expected_exc_paths[k] = self.expected_exc_paths.get(k, 0) + v
        self.functions = set(self.functions) | set(st['functions'])
        for k, v in st['bounds'].items():
            if isinstance(v, list):
                self.bounds.setdefault(k, []).extend(v)
            else:
                self.bounds[k] = v
        self.notes.extend(st['notes'])

    # -- evidence ----------------------------------------------------------------
    def finish(self, explanation, rule=None):
        counts = {}
        for o in self.obls:
            counts[o['verdict']] = counts.get(o['verdict'], 0) + 1
        n_obl = len(self.obls)
        twins_bad = [k for k, v in self.twins.items() if not v]
        ev = dict(
            property_id=self.pid,
            tier=self.tier,
            seed=self.seed,
            level='other',
            coverage=dict(
                explanation=explanation,
                obligations=n_obl,
                discharged=counts.get('discharged', 0),
                violations_reproduced=counts.get('violation', 0),
                known_findings_hit=counts.get('known', 0),
                spurious_candidates=counts.get('spurious', 0),
                inconclusive=counts.get('inconclusive', 0),
                paths_explored=self.paths,
                path_explorations_truncated=self.paths_truncated,
                solver_queries=self.queries,
                solver_seconds=round(self.solver_s, 3),
                solver='z3 ' + z3.get_version_string(),
                reachability_twins=self.twins,
                paths_ending_in_expected_exception=self.expected_exc_paths,
                functions_encoded=sorted(self.functions),
                bounds=self.bounds,
                stubs=self.stubs,
                outside_claim=self.outside,
                shadow_loader=self.shadow_stats,
                shadow_validation=SHADOW_VALIDATION,
                evaluations=max(self.queries, 1),
                distinct_nontrivial=max(n_obl, 0),
                rule=rule or 'one obligation = one (path, assertion) pair decided by the solver for all '
                             'values of the symbolic inputs; distinct by name',
                samples=self.samples or [dict(note='no obligations ran')],
                obligations_list=[dict(name=o['name'], verdict=o['verdict']) for o in self.obls][:400],
                not_discharged=[dict(name=o['name'], verdict=o['verdict'], detail=o.get('detail')) for o in self.obls
                                if o['verdict'] != 'discharged'][:200],
                notes=self.notes,
            ),
            assumptions=self.assumptions,
            wall_s=round(time.time() - self.t0, 2),
            violations=len(self.violations),
        )
        if not getattr(self.args, 'replay', None):          # a replay run does not rewrite the evidence of the check
            os.makedirs(os.path.join(ROOT, 'evidence'), exist_ok=True)
            with open(os.path.join(ROOT, 'evidence', self.pid + '.json'), 'w') as f:
                json.dump(ev, f, indent=1, default=str)
        print('%s tier=%s obligations=%d %s paths=%d queries=%d solver=%.1fs wall=%.1fs'
              % (self.pid, self.tier, n_obl, counts, self.paths, self.queries, self.solver_s,
                 time.time() - self.t0), flush=True)
        if twins_bad:
            print('HARNESS-ERROR: vacuous harness (reachability twin failed): %s' % twins_bad)
            return EXIT_HARNESS
        if self.violations:
            return EXIT_VIOLATION
        return EXIT_OK


SHADOW_VALIDATION = None
LAST_CHECK = None


def validate_shadow():
    """Translation validation of the shadow loader (DESIGN 2.1): the shadow modules, run on CONCRETE inputs,
    must print byte-identical reports to the real package for the option files of /repo/test (the two
    multi-minute ones and the one that prints wall-clock timings are skipped).  A mismatch is a harness
    error: nothing a shadow run says would be believed."""
    global SHADOW_VALIDATION
    import contextlib
    import glob
    import io
    import warnings
    sh = symx.load()
    mm = symx.real_mininec()

    def run(main_, argv):
        out, err = io.StringIO(), io.StringIO()
        try:
            with contextlib.redirect_stdout(out), contextlib.redirect_stderr(err), warnings.catch_warnings():
                warnings.simplefilter('ignore')
                rc = main_(list(argv), f_err=err)
        except SystemExit as e:
            rc = 'exit %s' % (e.code,)
        return rc, out.getvalue(), err.getvalue()
    files = [f for f in sorted(glob.glob(os.path.join(symx.shadow.REPO, 'test', '*.pym')))
             if not os.path.basename(f).startswith(('inverted-v', 'vloop20-time'))]
    bad = []
    for f in files:
        argv = pym_argv(f)
        if run(mm.main, argv) != run(sh.mininec.main, argv):
            bad.append(os.path.basename(f))
    cont = _container_selftest()
    SHADOW_VALIDATION = dict(option_files=len(files), byte_identical=len(files) - len(bad), differing=bad, container_ops_compared=cont)
    if bad:
        raise symx.HarnessError('shadow modules and real package print different reports for %s' % bad)


def _container_selftest(n_ops=600):
    """The shadow containers must behave like Python's on concrete keys: random operation sequences on SxDict vs dict and
    on sx_set vs set (fixed seed), compared after every step."""
    import random
    from symx.shadow import SxDict, sx_set
    rnd = random.Random(20261005)
    a, b = SxDict(), {}
    keys = ['k%d' % i for i in range(6)] + [1, 2.5, (1, 2), None]
    for step in range(n_ops):
        op = rnd.choice(['set', 'setdefault', 'pop', 'del', 'get', 'update', 'in', 'popitem', 'copy', 'clear'])
        k, v = rnd.choice(keys), rnd.randrange(100)
        ra = rb = None
        try:
            if op == 'set':
                a[k] = v
                b[k] = v
            elif op == 'setdefault':
                ra, rb = a.setdefault(k, v), b.setdefault(k, v)
            elif op == 'pop':
                ra, rb = a.pop(k, -1), b.pop(k, -1)
            elif op == 'del':
                ea = eb = None
                try:
                    del a[k]
                except KeyError:
                    ea = 'KeyError'
                try:
                    del b[k]
                except KeyError:
                    eb = 'KeyError'
                ra, rb = ea, eb
            elif op == 'get':
                ra, rb = a.get(k, -2), b.get(k, -2)
            elif op == 'update':
                a.update({k: v, 'u': step})
                b.update({k: v, 'u': step})
            elif op == 'in':
                ra, rb = k in a, k in b
            elif op == 'popitem' and b and rnd.random() < 0.2:
                ra, rb = a.popitem(), b.popitem()
            elif op == 'copy':
                a, b = a.copy(), dict(b)
            elif op == 'clear' and rnd.random() < 0.05:
                a.clear()
                b.clear()
        except Exception as e:
            raise symx.HarnessError('shadow dict self-test: %s(%r) raised %r' % (op, k, e))
        if ra != rb or list(a.items()) != list(b.items()) or len(a) != len(b) or list(a) != list(b) or list(a.values()) != list(b.values()):
            raise symx.HarnessError('shadow dict differs from dict after %s(%r): %r vs %r (results %r / %r)' % (op, k, list(a.items()), list(b.items()), ra, rb))
    sa, sb = sx_set(), set()
    for step in range(n_ops // 3):
        op = rnd.choice(['add', 'discard', 'in', 'len'])
        k = rnd.randrange(8)
        if op == 'add':
            sa.add(k)
            sb.add(k)
        elif op == 'discard':
            sa.discard(k)
            sb.discard(k)
        if (k in sa) != (k in sb) or len(sa) != len(sb) or sorted(sa) != sorted(sb) or list(sa) != list(sb):
            raise symx.HarnessError('shadow set differs from set after %s(%r)' % (op, k))
    return n_ops + n_ops // 3


def run_check(pid, main):
    """Wrap a check's main(): harness errors give exit code 2 and no verdict."""
    args = parse_args(pid)
    want = None
    if args.replay:
        # replay = derive the counterexample again on the CURRENT tree: the check is re-run in the tier that found it and
        # the recorded violation counts as reproduced iff a violation with the same key (call site + input class) is
        # found and confirmed on the real code again
        with open(args.replay) as f:
            want = json.load(f)
        if want.get('property') != pid:
            print('HARNESS-ERROR: %s is a replay file of %s' % (args.replay, want.get('property')))
            sys.exit(EXIT_HARNESS)
        args.tier = want.get('tier', args.tier)
        print('replaying %s: %s' % (want['key'], want['what'][:300]), flush=True)
    try:
        validate_shadow()
        rc = main(args)
        if want is not None and rc != EXIT_HARNESS:
            keys = {v['key'] for v in LAST_CHECK.violations} | {k['key'] for k in LAST_CHECK.known if any(k['what'] in h for h in LAST_CHECK.known_hits)}
            if want['key'] in keys:
                print('REPRODUCED key=%s' % want['key'])
                rc = EXIT_VIOLATION
            else:
                print('NOT REPRODUCED on the current tree: key=%s' % want['key'])
                rc = EXIT_OK
    except symx.HarnessError as e:
        traceback.print_exc()
        print('HARNESS-ERROR: %s' % e)
        rc = EXIT_HARNESS
    except Exception as e:
        traceback.print_exc()
        print('HARNESS-ERROR: unexpected %r' % e)
        rc = EXIT_HARNESS
    sys.exit(rc)


def close(a, b, rel=1e-9, ab=1e-12):
    return abs(a - b) <= max(rel * max(abs(a), abs(b)), ab)


def pym_argv(path):
    """Read a test/*.pym option file as the test-suite does (one option per line)."""
    argv = []
    for l in open(path):
        l = l.strip()
        if not l or l.startswith('#'):
            continue
        if l.startswith('-') and not l.startswith('--') and ' ' in l:
            k, v = l.split(' ', 1)
            argv.extend([k, v.strip()])
        else:
            argv.append(l)
    return argv


def parse_cli_model(txt):
    """{name: number} from the (get-model) output of the z3 binary (0-ary Real/Int constants only)."""
    import re as _re
    out = {}
    for m in _re.finditer(r'\(define-fun\s+(\S+)\s+\(\)\s+(Real|Int)\s+(.*?)\)\s*(?=\(define-fun|\)\s*$|$)', txt, _re.S):
        name, sort, body = m.group(1), m.group(2), m.group(3).strip()
        name = name.strip('|')
        val = _eval_sexpr(body)
        if val is not None:
            out[name] = int(val) if sort == 'Int' else val
    return out


def _eval_sexpr(b):
    import re as _re
    b = b.replace('?', '').strip()
    toks = _re.findall(r'\(|\)|[^\s()]+', b)
    pos = [0]

    def ev():
        t = toks[pos[0]]
        pos[0] += 1
        if t == '(':
            op = toks[pos[0]]
            pos[0] += 1
            args = []
            while toks[pos[0]] != ')':
                args.append(ev())
            pos[0] += 1
            if any(a is None for a in args):
                return None
            if op == '-':
                return -args[0] if len(args) == 1 else args[0] - args[1]
            if op == '/':
                return args[0] / args[1]
            if op == '+':
                return sum(args)
            if op == '*':
                r = 1.0
                for a in args:
                    r *= a
                return r
            return None
        try:
            return float(t)
        except ValueError:
            return None
    try:
        return ev()
    except (IndexError, ZeroDivisionError):
        return None


class _DictModel:
    """Adapter: evaluate symbolic inputs under a {name: value} model from the command-line solver."""

    def __init__(self, d):
        self.d = d

    def value(self, x):
        if isinstance(x, core.SR):
            return self._t(x.n) / self._t(x.den)
        if isinstance(x, core.SC):
            re_, im_ = x.re, x.im
            return complex(self.value(re_), self.value(im_))
        if isinstance(x, core.SI):
            return int(round(self._t(x.t)))
        return x

    def _t(self, t):
        if z3.is_rational_value(t):
            return t.numerator_as_long() / t.denominator_as_long()
        if z3.is_int_value(t):
            return float(t.as_long())
        if z3.is_const(t) and t.decl().kind() == z3.Z3_OP_UNINTERPRETED:
            return float(self.d.get(str(t), 0.0))
        k = t.decl().kind()
        ch = [self._t(c) for c in t.children()]
        if k == z3.Z3_OP_ADD:
            return sum(ch)
        if k == z3.Z3_OP_MUL:
            r = 1.0
            for c in ch:
                r *= c
            return r
        if k == z3.Z3_OP_SUB:
            return ch[0] - sum(ch[1:])
        if k == z3.Z3_OP_UMINUS:
            return -ch[0]
        if k == z3.Z3_OP_TO_REAL:
            return ch[0]
        raise symx.HarnessError('cannot evaluate %s under a command-line model' % t)


def model_inputs(model, inputs):
    if isinstance(model, dict):
        dm = _DictModel(model)
        out = {}
        for k, v in inputs.items():
            out[k] = [dm.value(e) for e in v] if isinstance(v, (list, tuple)) else dm.value(v)
        return out
    return _model_inputs(model, inputs)


def _model_inputs(model, inputs):
    """Concrete Python values of the symbolic inputs under a model."""
    out = {}
    for k, v in inputs.items():
        if isinstance(v, (list, tuple)):
            out[k] = [core.model_value(model, e) for e in v]
        else:
            out[k] = core.model_value(model, v)
    return out


def prove_paths(ck, name, fn, goals, replay, max_paths=500, assumptions=(), expect_exc=(),
                timeout_ms=None, wall_s=None, tol_goals=None, sqrt_mode='fresh', twin_timeout_ms=3000,
                fork_policy='check', prefer_true=(), external_twin=False, abstract_mul=False):
    """Explore fn symbolically, and for every feasible path and every goal ask the solver for a
    counterexample.  goals(out) -> [(goal_name, z3 Bool)];  replay(concrete_inputs, goal_name,
    out) -> None (holds on the real code => spurious) or (key, what, replay_dict).

    tol_goals(out) -> {goal_name: z3 Bool} optional weaker (tolerance) form tried when the exact
    goal has a counterexample."""
    qt = 10000 if ck.tier == 'quick' else 60000
    paths = symx.explore(fn, max_paths=max_paths, query_timeout_ms=qt, wall_s=wall_s,
                         assumptions=assumptions, sqrt_mode=sqrt_mode, fork_policy=fork_policy, prefer_true=prefer_true)
    ck.account(paths)
    reach = 0
    for pi, p in enumerate(paths):
        if p.exc is not None:
            if isinstance(p.exc, tuple(expect_exc)):
                ck.expected_exc_paths[type(p.exc).__name__] = ck.expected_exc_paths.get(type(p.exc).__name__, 0) + 1
                continue
            raise symx.HarnessError('%s: path %d raised %r' % (name, pi, p.exc)) from p.exc
        out = p.value
        # goals may build new terms (fresh symbols, side conditions): evaluate them inside the path's context
        p.ctx.fork_policy = 'assume'
        core.set_ctx(p.ctx)
        try:
            goal_list = list(goals(out))
            tg = tol_goals(out) if tol_goals else {}
        finally:
            core.set_ctx(None)
        prem = p.ctx.pc + p.ctx.axioms
        if abstract_mul:
            from symx import poly as _poly
            _cache = {}
            prem = [_poly.abstract_mul(x, _cache) for x in prem]
            goal_list = [(gn, _poly.abstract_mul(gl, _cache)) for gn, gl in goal_list]
        cli = external_twin
        if external_twin:
            v = ck.decide_external(name + ':twin', prem, max(1, twin_timeout_ms // 1000))
        else:
            v, _ = ck.decide(name + ':twin', prem, z3.BoolVal(True), twin_timeout_ms)
        if v == 'unsat':
            continue            # infeasible path (can happen after unknown feasibility answers)
        reach += 1
        for gname, goal in goal_list:
            oname = '%s/path%d/%s' % (name, pi, gname)
            if cli:
                v, model = ck.decide_cli(oname, prem, z3.Not(goal), max(1, (timeout_ms or (10000 if ck.tier == 'quick' else 60000)) // 1000))
            else:
                v, model = ck.decide(oname, prem, z3.Not(goal), timeout_ms)
            stage = 'exact'
            if v == 'sat' and gname in tg:
                v2, model2 = ck.decide(oname + ':tol', prem, z3.Not(tg[gname]), timeout_ms)
                stage = 'tolerance'
                if v2 != 'sat':
                    v, model = v2, model2
                else:
                    model = model2
            sample = dict(obligation=oname, symbolic_inputs=sorted(out.get('inputs', {}).keys()),
                          assertion=gname, stage=stage, verdict=v)
            if v == 'unsat':
                ck.record(oname, 'discharged', sample=sample)
            elif v == 'unknown':
                ck.record(oname, 'inconclusive', sample=sample)
            else:
                conc = model_inputs(model, out.get('inputs', {}))
                try:
                    r = replay(conc, gname, out)
                except Exception as e:       # replay itself failed: harness problem
                    raise symx.HarnessError('%s: replay failed %r (inputs %r)' % (oname, e, conc)) from e
                if r is None:
                    sample['candidate'] = conc
                    ck.record(oname, 'spurious', detail=dict(candidate=conc), sample=sample)
                else:
                    key, what, rd = r
                    rd = dict(rd, inputs=conc, obligation=oname)
                    verdict = ck.report_violation(key, what, rd)
                    sample['counterexample'] = conc
                    ck.record(oname, verdict, detail=what, sample=sample)
    ck.twin(name, reach > 0)
    return paths


def _sub_job(a):
    """Worker: run one part of a check in its own process with its own shadow load."""
    modname, fname, pid, args, extra = a
    import importlib
    mod = importlib.import_module(modname)
    ck = Check(pid, args, sub=True)
    sh = symx.load()
    mm = symx.real_mininec()
    with symx.shadow.trace_functions(sh):
        getattr(mod, fname)(ck, sh, mm, *extra)
    ck.functions = sh.entered
    return ck.export()


def _sub_proc(conn, a):
    try:
        conn.send(('ok', _sub_job(a)))
    except BaseException as e:            # harness errors travel to the parent as such
        import traceback as _tb
        conn.send(('err', '%s\n%s' % (repr(e), _tb.format_exc())))
    finally:
        conn.close()


def run_parallel(ck, modname, parts, procs=None, part_timeout_s=None):
    """parts: [(function name, extra args tuple)]; each runs as fn(ck, sh, mm, *extra) in its own process.

    Every part has a hard wall-clock budget (in-process z3 does not always honour its own timeout): a part
    that exceeds it is killed and recorded as ONE inconclusive obligation -- never as success."""
    import multiprocessing as mp
    if part_timeout_s is None:
        part_timeout_s = 600 if ck.tier == 'quick' else 7200
    nproc = procs or min(16, os.cpu_count() or 1)
    jobs = [(modname, fn, ck.pid, ck.args, tuple(extra)) for fn, extra in parts]
    pending = list(enumerate(jobs))
    running = {}
    errors = []
    while pending or running:
        while pending and len(running) < nproc:
            i, a = pending.pop(0)
            pc_, cc = mp.Pipe(duplex=False)
            p = mp.Process(target=_sub_proc, args=(cc, a), daemon=True)
            p.start()
            cc.close()
            running[i] = (p, pc_, time.time(), a)
        done = []
        for i, (p, conn, t0, a) in running.items():
            got = None
            try:
                if conn.poll(0.05):
                    got = conn.recv()
            except (EOFError, OSError):
                got = ('err', 'worker died without a result')
            if got is not None:
                p.join(5)
                if got[0] == 'ok':
                    ck.merge(got[1])
                else:
                    errors.append('%s%r: %s' % (a[1], a[4], got[1]))
                done.append(i)
            elif not p.is_alive():
                errors.append('%s%r: worker exited with code %r' % (a[1], a[4], p.exitcode))
                done.append(i)
            elif time.time() - t0 > part_timeout_s:
                p.terminate()
                p.join(5)
                if p.is_alive():
                    p.kill()
                name = '%s%r' % (a[1], a[4])
                ck.record(name + '/part exceeded its wall-clock budget of %d s' % part_timeout_s, 'inconclusive',
                          detail='killed; nothing this part explored is counted')
                ck.notes.append('part %s killed after %d s' % (name, part_timeout_s))
                done.append(i)
        for i in done:
            running.pop(i)[1].close()
    if errors:
        raise symx.HarnessError('sub-check failed: ' + ' | '.join(e[:1500] for e in errors))
