"""C08 -- loads act as the series circuit elements they describe (DESIGN 3, C08).

Runs the real load classes, register_load, compute_impedance_matrix_loads, compute_rhs,
compute_currents and Excitation.impedance of the current /repo source on symbolic numbers and
asks z3, per explored path, for values that break each clause.
"""
import math
import z3
import numpy as np

from .common import Check, run_check, prove_paths, close, laplace_load, ExpectedRefusal
import symx
from symx import SR, SC, core, npf
from symx.core import eq_term, close_term
from refmodels import catalogue

from fractions import Fraction
TWO_PI_1E6 = Fraction(2 * math.pi) * 10 ** 6      # exactly what 2*np.pi*f*1e6 is over the rationals
MU0 = 1.25663706127e-6


def pos(name, lo=None, hi=None):
    v = SR.var(name)
    c = symx.ctx()
    c.assume(v.n > 0)
    if lo is not None:
        c.assume(v.n >= core.RV(lo))
    if hi is not None:
        c.assume(v.n <= core.RV(hi))
    return v


def s_of(f):
    return SC(0.0, TWO_PI_1E6 * f)


# ---------------------------------------------------------------------------------
# A. circuit formulas
# ---------------------------------------------------------------------------------

def circuits(ck, sh, mm):
    M = sh.mininec

    # -- series RLC, every combination of optional parts ------------------------
    for mask in range(1, 8):
        has = dict(R=bool(mask & 1), L=bool(mask & 2), C=bool(mask & 4))

        def fn(has=has):
            f = pos('f', 0.1, 1000)
            kw, inp = {}, dict(f=f)
            for k in 'RLC':
                if has[k]:
                    kw[k] = inp[k] = pos(k, 1e-12, 1e12)
            with symx.object_arrays():
                ld = M.Series_RLC_Load(**kw)
                z = ld.impedance(f)
            s = s_of(f)
            ref = SC(0.0, 0.0)
            if has['R']:
                ref = ref + kw['R']
            if has['L']:
                ref = ref + s * kw['L']
            if has['C']:
                ref = ref + 1.0 / (s * kw['C'])
            return dict(inputs=inp, z=z, ref=ref)

        def replay(c, g, out, has=has):
            kw = {k: c[k] for k in 'RLC' if has[k]}
            z = mm.Series_RLC_Load(**kw).impedance(c['f'])
            s = 2j * math.pi * c['f'] * 1e6
            ref = kw.get('R', 0) + s * kw.get('L', 0) + (1 / (s * kw['C']) if has['C'] else 0)
            if close(z, ref, 1e-9):
                return None
            return ('C08:rlc:' + ''.join(k for k in 'RLC' if has[k]),
                    'Series_RLC_Load(%s).impedance(%g) = %r, circuit gives %r' % (kw, c['f'], z, ref),
                    dict(kind='rlc', kw=kw))
        prove_paths(ck, 'rlc-' + ''.join(k for k in 'RLC' if has[k]), fn,
                    lambda o: [('Z=R+sL+1/sC', eq_term(o['z'], o['ref']))], replay,
                    tol_goals=lambda o: {'Z=R+sL+1/sC': close_term(o['z'], o['ref'], 1e-9)})

    # -- trap ----------------------------------------------------------------------
    def fn():
        f = pos('f', 0.1, 1000)
        R, L, C = pos('R', 1e-12, 1e12), pos('L', 1e-12, 1e12), pos('C', 1e-12, 1e12)
        with symx.object_arrays():
            z = M.Trap_Load(R, L, C).impedance(f)
        s = s_of(f)
        za = R + s * L
        zb = 1.0 / (s * C)
        ref = za * zb / (za + zb)
        return dict(inputs=dict(f=f, R=R, L=L, C=C), z=z, ref=ref)

    def replay(c, g, out):
        z = mm.Trap_Load(c['R'], c['L'], c['C']).impedance(c['f'])
        s = 2j * math.pi * c['f'] * 1e6
        za, zb = c['R'] + s * c['L'], 1 / (s * c['C'])
        ref = za * zb / (za + zb)
        if close(z, ref, 1e-9):
            return None
        return ('C08:trap', 'Trap_Load.impedance = %r, circuit gives %r' % (z, ref), dict(kind='trap'))
    prove_paths(ck, 'trap', fn, lambda o: [('Z=(R+sL)||1/sC', eq_term(o['z'], o['ref']))], replay,
                tol_goals=lambda o: {'Z=(R+sL)||1/sC': close_term(o['z'], o['ref'], 1e-9)})

    # -- Laplace, degree <= 3, arbitrary coefficients ----------------------------------
    for deg in ((1, 2) if ck.tier == 'quick' else (0, 1, 2, 3)):
        def fn(deg=deg):
            f = pos('f', 0.1, 1000)
            a = [SR.var('a%d' % i) for i in range(deg + 1)]
            b = [SR.var('b%d' % i) for i in range(deg + 1)]
            with symx.object_arrays():
                z = laplace_load(M, a, b).impedance(f)
            s = s_of(f)
            num = den = SC(0.0, 0.0)
            sk = 1.0
            for i in range(deg + 1):
                num = num + b[i] * sk
                den = den + a[i] * sk
                sk = sk * s
            return dict(inputs=dict(f=f, a=a, b=b), z=z, num=num, den=den)

        def replay(c, g, out):
            z = mm.Laplace_Load(a=c['a'], b=c['b']).impedance(c['f'])
            s = 2j * math.pi * c['f'] * 1e6
            ref = sum(bb * s ** i for i, bb in enumerate(c['b'])) / sum(aa * s ** i for i, aa in enumerate(c['a']))
            if close(z, ref, 1e-9):
                return None
            return ('C08:laplace:deg%d' % len(c['a']), 'Laplace_Load.impedance = %r, ratio gives %r' % (z, ref),
                    dict(kind='laplace'))
        # z == num/den  <=>  z*den == num   (den != 0 on the path: the code divided by it)
        prove_paths(ck, 'laplace-deg%d' % deg, fn,
                    lambda o: [('Z=sum b s^k / sum a s^k', eq_term(o['z'] * o['den'], o['num']))],
                    replay, expect_exc=(ZeroDivisionError, ExpectedRefusal))


# ---------------------------------------------------------------------------------
# B. a lumped load on the feed pulse raises the feed impedance by exactly Z_L,
#    two loads act as their sum, a zero load changes nothing  (arbitrary system matrix)
# ---------------------------------------------------------------------------------

def _sym_matrix(n):
    Z = np.empty((n, n), dtype=object)
    for i in range(n):
        for j in range(n):
            Z[i, j] = SC.var('Z%d%d' % (i, j))
    return Z


def _stub_fill(m, Z):
    def fill():
        m.Z = Z.copy()
    m.compute_impedance_matrix = fill


def feed(ck, sh, mm):
    M = sh.mininec
    # (catalogue member, n pulses, feed pulse (0-based), description)
    cases = [('G1', 3, 1, 'interior feed, free space'),
             ('G7', 4, 0, 'feed on grounded wire end'),
             ('G7', 4, 2, 'interior feed over ground'),
             ('G2', 4, 2, 'feed on junction pulse')]
    if ck.tier == 'quick':
        cases = [('G1', 3, 1, 'interior feed, free space'), ('G8', 3, 2, 'feed on wire end grounded at end 2')]
    else:
        cases.append(('G8', 3, 2, 'feed on wire end grounded at end 2'))
    # the load named as "pulse p of the object with tag t" in a model whose tags leave a gap (1, 3, 4): pulse 2 of object 3 is the
    # interior pulse of the second wire (absolute pulse 3, 0-based 2), pulse 1 of object 4 the junction pulse the third wire brings
    cases += [('G5', 5, 2, 'load named by object tag, tags 1,3,4', (1, 3)), ('G5', 5, 3, 'load named by object tag, tags 1,3,4', (0, 4))][:1 if ck.tier == 'quick' else 2]
    for case in cases:
        gname, n, k, desc = case[:4]
        addr = case[4] if len(case) > 4 else None
        tags = [1, 3, 4] if addr else None

        def attach(m, ld, k, addr=addr):
            if addr is None:
                m.register_load(ld, k)
            else:
                m.register_load(ld, addr[0], addr[1])

        def fn(gname=gname, n=n, k=k, attach=attach, tags=tags):
            f = pos('f', 0.1, 1000)
            V = SC.var('V')
            ZL = SC.var('ZL')
            ZL2 = SC.var('ZL2')
            symx.ctx().assume(z3.Or(V.nr != 0, V.ni != 0))
            Z = _sym_matrix(n)
            res = {}
            with symx.object_arrays():
                for variant in ('none', 'one', 'two', 'sum', 'zero'):
                    m = catalogue.build(M, gname, f=f, tags=tags)
                    assert len(m.pulses) == n, (len(m.pulses), n)
                    _stub_fill(m, Z)
                    src = M.Excitation(V)
                    m.register_source(src, k)
                    if variant == 'one':
                        attach(m, M.Impedance_Load(ZL), k)
                    elif variant == 'two':
                        attach(m, M.Impedance_Load(ZL), k)
                        attach(m, M.Impedance_Load(ZL2), k)
                    elif variant == 'sum':
                        attach(m, M.Impedance_Load(ZL + ZL2), k)
                    elif variant == 'zero':
                        attach(m, M.Impedance_Load(0j), k)
                    m.compute()
                    res[variant] = (src.impedance, m.Z, m.current)
            return dict(inputs=dict(f=f, V=V, ZL=ZL, ZL2=ZL2, Z=list(Z.reshape(-1))), res=res, n=n, k=k)

        def goals(o):
            r = o['res']
            ZL, ZL2 = o['inputs']['ZL'], o['inputs']['ZL2']
            g = [('Zin(load)=Zin+ZL', eq_term(r['one'][0], r['none'][0] + ZL)),
                 ('two loads = sum (feed impedance)', eq_term(r['two'][0], r['sum'][0])),
                 ('zero load changes nothing', eq_term(r['zero'][0], r['none'][0]))]
            n = o['n']
            # the same statement one step earlier (decided in linear arithmetic whatever the matrix is): the load is a series element
            # of the feed pulse and of no other pulse
            g.insert(0, ('load sits on the feed pulse and only there (system matrix)',
                         z3.And(*([eq_term(r['one'][1][i][i], r['none'][1][i][i]) for i in range(n) if i != o['k']]
                                  + [z3.Or(eq_term(ZL, SC(0.0, 0.0)), z3.Not(eq_term(r['one'][1][o['k']][o['k']], r['none'][1][o['k']][o['k']])))]))))
            g.append(('two loads = sum (matrix)', z3.And(*[eq_term(r['two'][1][i][j], r['sum'][1][i][j])
                                                           for i in range(n) for j in range(n)])))
            return g

        def replay(c, gname_, out, gname=gname, n=n, k=k, attach=attach, tags=tags):
            Zc = np.array(c['Z'], dtype=complex).reshape(n, n)
            zin = {}
            for variant in ('none', 'one', 'two', 'sum', 'zero'):
                m = catalogue.build(mm, gname, f=c['f'], tags=tags)

                def fill(m=m):
                    m.Z = Zc.copy()
                m.compute_impedance_matrix = fill
                src = mm.Excitation(complex(c['V']))
                m.register_source(src, k)
                if variant == 'one':
                    attach(m, mm.Impedance_Load(c['ZL']), k)
                elif variant == 'two':
                    attach(m, mm.Impedance_Load(c['ZL']), k)
                    attach(m, mm.Impedance_Load(c['ZL2']), k)
                elif variant == 'sum':
                    attach(m, mm.Impedance_Load(c['ZL'] + c['ZL2']), k)
                elif variant == 'zero':
                    attach(m, mm.Impedance_Load(0j), k)
                m.compute()
                zin[variant] = src.impedance
            cond = np.linalg.cond(Zc)
            tol = 1e-9 * max(cond, 1)
            bad = None
            if not close(zin['one'], zin['none'] + c['ZL'], tol, 1e-9):
                bad = 'feed impedance with load %r is %r, without %r' % (c['ZL'], zin['one'], zin['none'])
            elif not close(zin['two'], zin['sum'], tol, 1e-9):
                bad = 'two loads give %r, their sum %r' % (zin['two'], zin['sum'])
            elif not close(zin['zero'], zin['none'], tol, 1e-9):
                bad = 'zero load changes feed impedance %r -> %r' % (zin['none'], zin['zero'])
            if bad is None:
                return None
            return ('C08:feed:%s:pulse%d%s' % (gname, k, ':by-tag' if tags else ''), bad, dict(kind='feed', geometry=gname, pulse=k))

        prove_paths(ck, 'feed-%s-p%d%s' % (gname, k, '-by-tag' if addr else ''), fn, goals, replay, expect_exc=(ZeroDivisionError,))
        ck.bounds.setdefault('feed_cases', []).append('%s n=%d pulse=%d (%s)' % (gname, n, k, desc))


def feed_again(ck, sh, mm):
    """The second request on the same model object (excitation changed, same frequency, nothing else touched) with the REAL matrix fill on
    concrete catalogue geometry: the load is still the series element Z_L of the feed pulse -- system matrix of the second solve = that
    of the first, feed impedance = that of the unloaded model + Z_L."""
    M = sh.mininec
    for gname, k in (('G1', 1), ('G8', 2)):
        def fn(gname=gname, k=k):
            V1, V2, ZL = SC.var('V1'), SC.var('V2'), SC.var('ZL')
            c = symx.ctx()
            for v in (V1, V2):
                c.assume(z3.Or(v.nr != 0, v.ni != 0))
            res = {}
            with symx.object_arrays():
                for variant in ('none', 'one'):
                    m = catalogue.build(M, gname)
                    if variant == 'one':
                        m.register_load(M.Impedance_Load(ZL), k)
                    m.register_source(M.Excitation(V1), k)
                    m.compute()
                    z1 = np.array(m.Z, dtype=object).copy()
                    m.sources = []
                    src = M.Excitation(V2)
                    m.register_source(src, k)
                    m.compute()
                    res[variant] = (src.impedance, z1, np.array(m.Z, dtype=object).copy())
            return dict(inputs=dict(V1=V1, V2=V2, ZL=ZL), res=res, n=len(m.pulses), k=k)

        def goals(o):
            n, r = o['n'], o['res']
            ZL = o['inputs']['ZL']
            # (the impedance form Zin(load) = Zin + ZL of the same statement is evaluated by the replay: with the float entries of a real
            # fill it only holds to rounding, and the solver is asked the exact, linear, matrix form)
            return [('second request: the system matrix is that of the first request', z3.And(*[eq_term(r['one'][2][i][j], r['one'][1][i][j]) for i in range(n) for j in range(n)])),
                    ('second request: the unloaded matrix differs from the loaded one on the diagonal entry of the feed pulse only',
                     z3.And(*[eq_term(r['one'][2][i][j], r['none'][2][i][j]) for i in range(n) for j in range(n) if (i, j) != (o['k'], o['k'])]))]

        def replay(c, gn, out, gname=gname, k=k):
            V1, V2, ZL = complex(c['V1']), complex(c['V2']), complex(c['ZL'])
            if ZL == 0:
                ZL = 50 + 30j
            zin = {}
            for variant in ('none', 'one'):
                m = catalogue.build(mm, gname)
                if variant == 'one':
                    m.register_load(mm.Impedance_Load(ZL), k)
                m.register_source(mm.Excitation(V1), k)
                m.compute()
                m.sources = []
                src = mm.Excitation(V2)
                m.register_source(src, k)
                m.compute()
                zin[variant] = src.impedance
            if close(zin['one'], zin['none'] + ZL, 1e-7, 1e-9):
                return None
            return ('C08:feed-again:%s' % gname, '%s: on the second request of the same model a load %r on the feed pulse raises the feed impedance from %r to %r'
                    % (gname, ZL, zin['none'], zin['one']), dict(kind='feed-again', geometry=gname))
        prove_paths(ck, 'feed-again-%s' % gname, fn, goals, replay, expect_exc=(ZeroDivisionError,), timeout_ms=30000)


# ---------------------------------------------------------------------------------
# C. distributed loads: per half-segment, with the constants of the wire that half belongs to
# ---------------------------------------------------------------------------------

def distributed(ck, sh, mm):
    """Skin-effect and insulation loads on a junction of two different wires (different radii, segment
    lengths, conductivities, coatings): the impedance the load reports for a pulse is the sum over the two
    half-segments of (half length) x (per-length impedance of the wire THAT half belongs to), with
        z'_skin = k / (2 pi r sigma) * J0(kr)/J1(kr)   (j beyond |kr| >= 110),  k = sqrt(-j omega mu0 sigma)
        z'_ins  = j omega mu0 (eps_r - 1)/eps_r * ln(b/a) / (2 pi)
    for all frequencies, conductivities / resistivities and permittivities (Bessel, log, sqrt, abs as
    uninterpreted functions); every subset of loaded wires, both evaluation orders of the two loads."""
    from refmodels import mininec3
    M = sh.mininec
    geos = ['G2', 'G4', 'G9'] if ck.tier == 'quick' else ['G2', 'G3', 'G4', 'G9', 'G16']
    for gname in geos:
        for kind in ('skin-c', 'skin-r', 'ins'):
            for loaded in ((0, 1), (0,), (1,)):
                if ck.tier == 'quick' and gname == 'G9' and loaded != (0,):
                    continue          # quick: the grounded wire of G9 only (its sloping top wire is the thorough tier's; half lengths there are decided up to float association)
                for order in ((0, 1), (1, 0)) if len(loaded) == 2 else ((0,),):
                    _distributed_case(ck, M, mm, mininec3, gname, kind, loaded, order)


def _mk_dist(M, m, kind, loaded, P):
    lds = {}
    for i in loaded:
        w = m.geo[i]
        if kind == 'skin-c':
            ld = M.Skin_Effect_Load(w, conductivity=P['sigma'][i], all_wires=False)
        elif kind == 'skin-r':
            ld = M.Skin_Effect_Load(w, resistivity=P['rho'][i], all_wires=False)
        else:
            ld = M.Insulation_Load(w, P['insr'][i], P['eps'][i], all_wires=False)
        m.register_load(ld, None, w.tag)
        lds[i] = ld
    m.fix_distributed_loads()
    return lds


def _distributed_case(ck, M, mm, mininec3, gname, kind, loaded, order):
    insr = [0.006, 0.009]

    def fn():
        f = pos('f', 0.1, 1000)
        P = dict(sigma=[pos('sigma1', 1e3, 1e9), pos('sigma2', 1e3, 1e9)], rho=[pos('rho1', 1e-9, 1e-3), pos('rho2', 1e-9, 1e-3)],
                 eps=[pos('eps1', 1.5, 80), pos('eps2', 1.5, 80)], insr=insr)
        omg = f * TWO_PI_1E6
        with symx.object_arrays():
            m = catalogue.build(M, gname, f=f)
            lds = _mk_dist(M, m, kind, loaded, P)
            seq = [lds[loaded[k]] for k in order]
            # the loads were evaluated at another (arbitrary) frequency before, as in every sweep step but the first
            f0 = pos('f0', 0.1, 1000)
            if order[0] == loaded[0] - loaded[0]:          # (one evaluation order per subset is enough for the visit: it doubles the paths)
                for ld in seq:
                    for p in ld.pulses:
                        ld.impedance(f0, p)
            got = []
            for ld in seq:
                for p in ld.pulses:
                    got.append((ld.geobj.n, p.idx, ld.impedance(f, p)))
            # reference, from pulse geometry and the constants of the wire of each half
            def ref_of(p):
                hv = mininec3.halves(p, independent=False)      # half lengths exactly as the load sees them (bit-identical association)
                acc = SC(0.0, 0.0)
                for h in (0, 1):
                    w = p.geo[h]
                    if w.n not in lds:
                        continue
                    if np.asarray(p.ground)[h]:
                        continue           # the image half of a grounded pulse is no conductor: nothing is dissipated or stored in it
                    half = hv[h]['len'] / 2
                    if kind == 'ins':
                        eps = P['eps'][w.n]
                        zp = (MU0 * (eps - 1) / eps * npf.log(insr[w.n] / w.r_orig) / (2 * math.pi)) * omg * SC(0.0, 1.0)      # same association as a double computation
                    else:
                        sig = P['sigma'][w.n] if kind == 'skin-c' else 1 / P['rho'][w.n]
                        k = npf.sqrt(SC(0.0, -1.0) * omg * MU0 * sig)
                        kr = k * w.r_orig
                        b = SC(0.0, 1.0)
                        if abs(kr) < 110.0:
                            b = npf.jv(0, kr) / npf.jv(1, kr)
                        zp = k / (2 * math.pi * w.r_orig * sig) * b
                    acc = acc + zp * half
                return acc
            ref = [ref_of(m.pulses[pidx]) for gi, pidx, z in got]
            # what the system matrix receives: EVERY pulse that has a half on a loaded wire, exactly once
            n = len(m.pulses)
            m.Z = np.zeros((n, n), dtype=object)
            m.Z[...] = 0.0
            m.compute_impedance_matrix_loads()
            diag = [m.Z[i][i] for i in range(n)]
            dref = []
            for p in m.pulses:
                wgt = (2.0 if (np.asarray(p.ground).any() and m.media is not None) else 1.0) / m.m
                dref.append(ref_of(p) * SC(0.0, -1.0) * wgt)
        inp = dict(f=f, f0=f0, sigma1=P['sigma'][0], sigma2=P['sigma'][1], rho1=P['rho'][0], rho2=P['rho'][1], eps1=P['eps'][0], eps2=P['eps'][1])
        return dict(inputs=inp, got=got, ref=ref, diag=diag, dref=dref)

    def goals(o):
        g = [('load of object %d on pulse %d = sum over halves of half length x per-length impedance of that half\'s wire' % (gi + 1, pi + 1),
              eq_term(z, r)) for (gi, pi, z), r in zip(o['got'], o['ref'])]
        for i, (a, b) in enumerate(zip(o['diag'], o['dref'])):
            g.append(('matrix diagonal of pulse %d carries the conductor length that pulse stands for, once' % (i + 1),
                      close_term(a, b, 1e-9) if kind == 'ins' else eq_term(a, b)))
        return g

    def replay(c, gn, out):
        import scipy.special as sps
        P = dict(sigma=[c['sigma1'], c['sigma2']], rho=[c['rho1'], c['rho2']], eps=[c['eps1'], c['eps2']], insr=insr)
        m = catalogue.build(mm, gname, f=c['f'])
        lds = _mk_dist(mm, m, kind, loaded, P)
        for ld in [lds[loaded[k]] for k in order]:
            for p in ld.pulses:
                ld.impedance(float(c.get('f0', 1.0)), p)
        omg = 2 * math.pi * c['f'] * 1e6
        from refmodels import mininec3 as m3
        for ld in [lds[loaded[k]] for k in order]:
            for p in ld.pulses:
                z = ld.impedance(c['f'], p)
                hv = m3.halves(p, independent=False)
                acc = 0j
                for h in (0, 1):
                    w = p.geo[h]
                    if w.n not in lds:
                        continue
                    if np.asarray(p.ground)[h]:
                        continue           # the image half of a grounded pulse is no conductor: nothing is dissipated or stored in it
                    half = hv[h]['len'] / 2
                    if kind == 'ins':
                        e = P['eps'][w.n]
                        zp = 1j * omg * MU0 * (e - 1) / e * math.log(insr[w.n] / w.r_orig) / (2 * math.pi)
                    else:
                        sig = P['sigma'][w.n] if kind == 'skin-c' else 1 / P['rho'][w.n]
                        k = np.sqrt(-1j * omg * MU0 * sig)
                        kr = k * w.r_orig
                        b = 1j if abs(kr) >= 110 else sps.jv(0, kr) / sps.jv(1, kr)
                        zp = k / (2 * math.pi * w.r_orig * sig) * b
                    acc += zp * half
                if not close(z, acc, 1e-7, 1e-300):
                    return ('C08:distributed:%s:%s' % (kind, 'junction' if p.geo[0] is not p.geo[1] else 'interior'),
                            '%s, %s on object(s) %s: load of object %d on pulse %d is %r, per-half sum gives %r'
                            % (gname, kind, [i + 1 for i in loaded], ld.geobj.n + 1, p.idx + 1, z, acc), dict(kind='distributed', geometry=gname))
        # every pulse: matrix diagonal vs conductor length it stands for
        n = len(m.pulses)
        m.Z = np.zeros((n, n), dtype=complex)
        m.compute_impedance_matrix_loads()
        for p in m.pulses:
            hv = m3.halves(p, independent=False)
            acc = 0j
            for h in (0, 1):
                w = p.geo[h]
                if w.n not in lds:
                    continue
                if np.asarray(p.ground)[h]:
                    continue
                half = hv[h]['len'] / 2
                if kind == 'ins':
                    e = P['eps'][w.n]
                    zp = 1j * omg * MU0 * (e - 1) / e * math.log(insr[w.n] / w.r_orig) / (2 * math.pi)
                else:
                    sig = P['sigma'][w.n] if kind == 'skin-c' else 1 / P['rho'][w.n]
                    k = np.sqrt(-1j * omg * MU0 * sig)
                    kr = k * w.r_orig
                    b = 1j if abs(kr) >= 110 else sps.jv(0, kr) / sps.jv(1, kr)
                    zp = k / (2 * math.pi * w.r_orig * sig) * b
                acc += zp * half
            wgt = (2.0 if (np.asarray(p.ground).any() and m.media is not None) else 1.0) / m.m
            if not close(m.Z[p.idx][p.idx], -1j * acc * wgt, 1e-7, 1e-300):
                return ('C08:distributed:%s:matrix' % kind, '%s, %s on object(s) %s: pulse %d stands for conductor worth %r ohm, the matrix receives %r'
                        % (gname, kind, [i + 1 for i in loaded], p.idx + 1, acc, m.Z[p.idx][p.idx] / (-1j * wgt)), dict(kind='distributed', geometry=gname))
        return None
    prove_paths(ck, 'dist-%s-%s-w%s-o%s' % (gname, kind, ''.join(str(i + 1) for i in loaded), ''.join(map(str, order))), fn, goals, replay,
                max_paths=64, sqrt_mode='uf-free', timeout_ms=5000 if ck.tier == 'quick' else 30000,
                tol_goals=(lambda o: {g[0]: close_term(z, r, 1e-9) for g, ((gi, pi, z), r) in zip(goals(o), zip(o['got'], o['ref']))}) if kind == 'ins' else None)


def main(args):
    ck = Check('C08', args)
    sh = symx.load()
    ck.shadow_stats = sh.stats
    mm = symx.real_mininec()
    with symx.shadow.trace_functions(sh):
        circuits(ck, sh, mm)
        feed(ck, sh, mm)
        feed_again(ck, sh, mm)
        distributed(ck, sh, mm)
    ck.functions = sh.entered
    ck.assumptions += [
        'reals stand in for IEEE doubles (rounding of the load arithmetic and of LAPACK is not modelled)',
        'system matrix arbitrary complex n x n with det != 0 (Z-arbitrary stub replaces the matrix fill)',
        'np.linalg.solve = exact solution (Cramer over the symbolic field)',
        'f in [0.1, 1000] MHz, R/L/C in [1e-12, 1e12], all > 0',
    ]
    ck.stubs += ['compute_impedance_matrix -> arbitrary symbolic Z (feed clauses)', 'np.linalg.solve -> exact Cramer']
    ck.outside += ['Bessel-function accuracy, the |kr|<110 threshold', 'LAPACK rounding']
    return ck.finish(
        'Bounded symbolic execution of the real load classes and load/rhs/solve path on z3-backed '
        'numbers; each obligation is decided by z3 for ALL values of the symbolic inputs on one '
        'explored path (unsat = holds; sat = replayed on the untouched package).')


if __name__ == '__main__':
    run_check('C08', main)
