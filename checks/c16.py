"""C16 -- field tables contain exactly the requested sample points.

Start and increment are IEEE doubles (z3 Float64 variables); the count is concrete per job.
The real grid construction of compute_near_field and the real Angle.angle_deg / angle part of
compute_far_field run on them; np.arange carries numpy's length rule in double arithmetic.
"""
import math
from fractions import Fraction
import multiprocessing as mp
import os
import time
import z3
import numpy as np

from .common import Check, run_check, close
import symx
from symx import core, npf, fp
from symx.fp import SF, fpval
from refmodels import catalogue

RANGES = dict(quick=dict(smax=64.0, imin=2.0 ** -7, imax=8.0),
              thorough=dict(smax=1e4, imin=1e-4, imax=1e3))


def _se_inputs(tier):
    """start / increment under the standard model of floating-point arithmetic (reals + eps)."""
    r = RANGES[tier]
    c = symx.ctx()
    s, i = fp.SE.var('start'), fp.SE.var('inc')
    c.assume((abs(s.v) <= r['smax']).t)
    c.assume((abs(i.v) <= r['imax']).t)
    c.assume((abs(i.v) >= r['imin']).t)
    return s, i


def _sf_inputs(tier):
    r = RANGES[tier]
    c = symx.ctx()
    s, i = SF.var('start'), SF.var('inc')
    for v in (s, i):
        c.assume(z3.Not(z3.fpIsNaN(v.t)))
        c.assume(z3.Not(z3.fpIsInf(v.t)))
    c.assume(z3.fpLEQ(z3.fpAbs(s.t), fpval(r['smax'])))
    c.assume(z3.fpLEQ(z3.fpAbs(i.t), fpval(r['imax'])))
    c.assume(z3.fpGEQ(z3.fpAbs(i.t), fpval(r['imin'])))
    return s, i


OTHER = {0: ((0.5, 0.25, 2), (-1.0, 2.0, 3)),     # (start, inc, count) of the two concrete axes
         1: ((0.5, 0.25, 3), (-1.0, 2.0, 2)),
         2: ((0.5, 0.25, 2), (-1.0, 2.0, 3))}


LINE = ((0.5, 0.25, 1), (-1.0, 2.0, 1))             # a scan line: one point on each of the two concrete axes


def _axes(axis, n, s, i, line=False):
    o = list(LINE if line else OTHER[axis])
    ax = []
    for a in range(3):
        ax.append((s, i, n) if a == axis else o.pop(0))
    return ax


def near_job(args):
    tier, n, axis, qt = args
    line = axis >= 3                   # 3..5: scan line along axis - 3 (counts n,1,1 / 1,n,1 / 1,1,n)
    axis = axis % 3
    t0 = time.time()
    sh = symx.load()
    M = sh.mininec
    mm = symx.real_mininec()
    res = dict(kind='near', n=n, axis=axis, obls=[], solver_s=0.0, queries=0, paths=0, aborted=0,
               functions=[], violations=[])

    def fn(mode='fp'):
        s, i = _sf_inputs(tier) if mode == 'fp' else _se_inputs(tier)
        m = catalogue.build(M, 'G1')
        m.power = 1.0
        m.current = np.zeros(len(m.pulses), dtype=complex)
        m.near_field_iter = lambda: iter(())          # per-point field evaluation is not under test
        ax = _axes(axis, n, s, i, line)
        npf.state.arange_hook = fp.numpy_arange if mode == 'fp' else None
        try:
            with symx.object_arrays():
                m.compute_near_field([a[0] for a in ax], [a[1] for a in ax], [a[2] for a in ax])
        finally:
            npf.state.arange_hook = None
        rows = list(M.Mininec.near_field_iter(m))
        return dict(coord=m.near_field_coord, rows=rows, s=s, i=i, ax=ax)

    with symx.shadow.trace_functions(sh):
        paths = symx.explore(fn, query_timeout_ms=qt, max_paths=8)
    res['functions'] = sorted(sh.entered)
    res['paths'] = len(paths)
    res['aborted'] = paths.aborted
    res['solver_s'] += paths.solver_s
    res['queries'] += paths.queries
    name = 'near-n%d-axis%s%s' % (n, 'xyz'[axis], '-line' if line else '')
    if paths.aborted:
        res['obls'].append((name + '/other-lengths', 'inconclusive',
                            'solver gave unknown while enumerating further feasible lengths'))
    for pi, p in enumerate(paths):
        if p.exc is not None:
            raise symx.HarnessError('%s: %r' % (name, p.exc)) from p.exc
        o = p.value
        counts = [a[2] for a in o['ax']]
        total = counts[0] * counts[1] * counts[2]
        coord = o['coord']
        oname = '%s/path%d/count' % (name, pi)
        if coord.shape != (3, total) or len(o['rows']) != total:
            # the path condition itself says: for these inputs the table has another size
            s = z3.Solver()
            s.set('timeout', qt)
            s.add(p.pc + p.axioms)
            t = time.time()
            r = s.check()
            res['solver_s'] += time.time() - t
            res['queries'] += 1
            if str(r) != 'sat':
                res['obls'].append((oname, 'inconclusive', 'no model for a wrong-size path'))
                continue
            mdl = s.model()
            sv, iv = fp.fp_model_value(mdl, o['s']), fp.fp_model_value(mdl, o['i'])
            rep = replay_near(mm, axis, n, sv, iv, line)
            if rep is None:
                res['obls'].append((oname, 'spurious', dict(start=sv, inc=iv, n=n)))
            else:
                res['violations'].append(rep)
                res['obls'].append((oname, 'violation', rep[1]))
            continue
        res['obls'].append((oname, 'discharged', 'table has %d columns on this path' % total))
    # ---- second pass: values and order under the standard model of FP arithmetic ----
    oname = '%s/values-and-order' % name
    try:
        with symx.shadow.trace_functions(sh):
            paths2 = symx.explore(lambda: fn('se'), query_timeout_ms=qt, max_paths=8)
    except symx.HarnessError as e:
        res['obls'].append((oname, 'inconclusive', 'grid construction not executable on real-relaxed floats: %s' % e))
        paths2 = []
    for pi, p in enumerate(paths2):
        if p.exc is not None:
            raise symx.HarnessError('%s: %r' % (name, p.exc)) from p.exc
        res['paths'] += 1
        o = p.value
        counts = [a[2] for a in o['ax']]
        total = counts[0] * counts[1] * counts[2]
        coord = o['coord']
        if coord.shape != (3, total):
            res['obls'].append((oname, 'inconclusive', 'wrong table size on the relaxed path (see count obligation)'))
            continue
        goals = []
        rows = o['rows']
        if len(rows) != total or any(len(r_) != 3 for r_ in rows):
            goals.append(z3.BoolVal(False))
            rows = None
        # both what compute_near_field stores and what the report (near_field_iter) walks over
        for src, k in [(s_, k_) for s_ in ('grid', 'iter') for k_ in range(total)]:
            if src == 'iter' and rows is None:
                continue
            idx = (k % counts[0], (k // counts[0]) % counts[1], k // (counts[0] * counts[1]))
            for a in range(3):
                st, inc, cnt = o['ax'][a]
                v = coord[a][k] if src == 'grid' else rows[k][a]
                if a == axis:
                    ref = st.v + idx[a] * inc.v                      # exact real start + k*inc
                    v = fp.SE.lift(v).v
                    tol = (abs(st.v) + abs(idx[a] * inc.v)) * Fraction(1, 10 ** 12)
                    goals.append((abs(v - ref) <= tol).t)
                else:
                    try:
                        same = close(float(v), st + idx[a] * inc, 1e-12)
                    except symx.HarnessError:
                        same = False                   # a value that depends on the symbolic start/increment sits on a concrete axis
                    if not same:
                        goals.append(z3.BoolVal(False))
        s = z3.Solver()
        s.set('timeout', qt)
        s.add(p.pc + p.axioms)
        s.add(z3.Not(z3.And(*goals)))
        t = time.time()
        r = str(s.check())
        res['solver_s'] += time.time() - t
        res['queries'] += 1
        on = '%s/path%d' % (oname, pi)
        if r == 'unsat':
            res['obls'].append((on, 'discharged', 'every point within 1e-12*(|start|+|k*inc|) of start+k*inc, x fastest'))
        elif r == 'unknown':
            res['obls'].append((on, 'inconclusive', None))
        else:
            mdl = s.model()
            sv, iv = float(core.model_value(mdl, o['s'].v)), float(core.model_value(mdl, o['i'].v))
            rep = replay_near(mm, axis, n, sv, iv, line)
            if rep is None:
                res['obls'].append((on, 'spurious', dict(start=sv, inc=iv, n=n)))
            else:
                res['violations'].append(rep)
                res['obls'].append((on, 'violation', rep[1]))
    res['wall'] = time.time() - t0
    return res


def replay_near(mm, axis, n, sv, iv, line=False):
    """Concrete replay on the untouched package: grid of the real compute_near_field."""
    m = catalogue.build(mm, 'G1')
    m.power = 1.0
    m.current = np.zeros(len(m.pulses), dtype=complex)
    m.near_field_iter = lambda: iter(())
    ax = _axes(axis, n, sv, iv, line)
    m.compute_near_field([a[0] for a in ax], [a[1] for a in ax], [a[2] for a in ax])
    counts = [a[2] for a in ax]
    total = counts[0] * counts[1] * counts[2]
    co = m.near_field_coord
    key = 'C16:near-field-grid:arange-length'
    if co.shape != (3, total):
        return (key, 'near-field grid for start=%r inc=%r count=%d on axis %s has %d points instead of %d'
                % (sv, iv, n, 'xyz'[axis], co.shape[1], total),
                dict(kind='near', axis=axis, n=n, start=sv, inc=iv, got=int(co.shape[1]), want=total))
    rows = [np.asarray(r_, dtype=float) for r_ in mm.Mininec.near_field_iter(m)]
    if len(rows) != total:
        return ('C16:near-field-report:points', 'the report walks over %d field points, requested %d' % (len(rows), total), dict(kind='near', axis=axis, n=n, start=sv, inc=iv))
    for k in range(total):
        idx = (k % counts[0], (k // counts[0]) % counts[1], k // (counts[0] * counts[1]))
        for a in range(3):
            want = ax[a][0] + idx[a] * ax[a][1]
            if not close(co[a][k], want, 1e-9, 1e-12):
                return ('C16:near-field-grid:values', 'near-field point %d axis %s is %r, expected %r' % (
                    k, 'xyz'[a], co[a][k], want),
                    dict(kind='near', axis=axis, n=n, start=sv, inc=iv))
            if not close(rows[k][a], want, 1e-9, 1e-12):
                return ('C16:near-field-report:points', 'field point %d of the report (counts %s) is %s, requested %s on axis %s' % (
                    k + 1, counts, list(rows[k]), want, 'xyz'[a]), dict(kind='near', axis=axis, n=n, start=sv, inc=iv))
    return None


def second_request_job(args):
    """Two near-field requests in a row on ONE object (a scan line shifted a little, another increment, another count):
    the table of the second request holds the points of the second request.  Concrete runs of the regenerated code on
    request pairs chosen to differ by 1e-9 .. 1e-2 relative in one parameter (structural obligation, like the table rows)."""
    tier, = args
    t0 = time.time()
    sh = symx.load()
    M = sh.mininec
    mm = symx.real_mininec()
    res = dict(kind='near-second', n=0, obls=[], solver_s=0.0, queries=0, paths=1, aborted=0, functions=[], violations=[])
    first = ([20000.0, 1.0, -3.0], [0.1, 0.25, 1.0], [3, 2, 1])
    variants = []
    for rel in (1e-9, 1e-7, 2.5e-6, 1e-4, 1e-2):
        variants.append(([20000.0 * (1 + rel), 1.0, -3.0], first[1], first[2], 'start x shifted by %g relative' % rel))
        variants.append((first[0], [0.1 * (1 + rel), 0.25, 1.0], first[2], 'increment x changed by %g relative' % rel))
    variants.append((first[0], first[1], [3, 2, 2], 'count z 1 -> 2'))
    variants.append(([20000.0, 1.0, -3.0 + 1e-7], first[1], first[2], 'start z shifted by 1e-7'))

    def run(Mx, second):
        m = catalogue.build(Mx, 'G1')
        m.power = 1.0
        m.current = np.zeros(len(m.pulses), dtype=complex)
        m.compute_near_field(*first)
        m.compute_near_field(second[0], second[1], second[2])
        got = np.array(m.near_field_coord, dtype=float)
        want = []
        n = second[2]
        for iz in range(n[2]):
            for iy in range(n[1]):
                for ix in range(n[0]):
                    want.append([second[0][0] + ix * second[1][0], second[0][1] + iy * second[1][1], second[0][2] + iz * second[1][2]])
        want = np.array(want).T
        rows = len(list(m.near_field_iter()))
        if got.shape != want.shape or rows != want.shape[1] or len(m.e_field) != want.shape[1]:
            return 'table of the second request has %d points (%d field rows), requested %d' % (got.shape[-1], len(m.e_field), want.shape[1])
        if np.abs(got - want).max() > 1e-9 * np.abs(want).max():
            k = int(np.argmax(np.abs(got - want).max(axis=0)))
            return 'point %d of the second request is listed at %s, requested %s' % (k + 1, list(got[:, k]), list(want[:, k]))
        return None

    for second in variants:
        oname = 'near-second-request/%s' % second[3]
        bad = run(M, second)
        if bad is None:
            res['obls'].append((oname, 'discharged', None))
            continue
        real = run(mm, second)
        if real is None:
            res['obls'].append((oname, 'spurious', bad))
        else:
            res['violations'].append(('C16:near-field:second-request', 'after a request %s, a second request with %s: %s' % (first, second[3], real),
                                      dict(kind='near-second', first=[list(x) for x in first], second=[list(second[0]), list(second[1]), list(second[2])])))
            res['obls'].append((oname, 'violation', real))
    res['wall'] = time.time() - t0
    return res


def far_job(args):
    tier, nt, npn, qt, which = args
    t0 = time.time()
    sh = symx.load()
    M = sh.mininec
    mm = symx.real_mininec()
    res = dict(kind='far', n=(nt, npn), obls=[], solver_s=0.0, queries=0, paths=0, aborted=0,
               functions=[], violations=[])

    class Ang(M.Angle):
        def angle_rad(self):          # field values are not under test: concrete placeholder angles
            return np.linspace(0.1, 1.0, self.number)

    def fn():
        c = symx.ctx()
        r = RANGES[tier]
        v = {}
        conc = dict(t0=10.0, ti=7.5, p0=0.0, pi=12.5)
        for nm in ('t0', 'ti', 'p0', 'pi'):
            if nm[0] != which[0]:
                v[nm] = conc[nm]          # the other angle is concrete in this job
                continue
            v[nm] = SF.var(nm)
            c.assume(z3.Not(z3.fpIsNaN(v[nm].t)))
            c.assume(z3.Not(z3.fpIsInf(v[nm].t)))
            c.assume(z3.fpLEQ(z3.fpAbs(v[nm].t), fpval(720.0)))
            if nm[1] == 'i':
                c.assume(z3.fpGEQ(z3.fpAbs(v[nm].t), fpval(r['imin'])))
        m = catalogue.build(M, 'G1')
        m.power = 1.0
        m.current = np.ones(len(m.pulses), dtype=complex)
        zen, azi = Ang(v['t0'], v['ti'], nt), Ang(v['p0'], v['pi'], npn)
        npf.state.arange_hook = fp.numpy_arange          # in case the angle lists are built with arange
        try:
            with symx.object_arrays():
                m.compute_far_field(zen, azi)
        finally:
            npf.state.arange_hook = None
        ff = m.far_field
        return dict(zen=ff.zen, azi=ff.azi, gain=ff.gain, v=v,
                    rows=len(ff.db_as_mininec.__self__.zen.flat))

    with symx.shadow.trace_functions(sh):
        paths = symx.explore(fn, query_timeout_ms=qt, max_paths=8)
    res['functions'] = sorted(sh.entered)
    res['paths'] = len(paths)
    res['solver_s'] += paths.solver_s
    res['queries'] += paths.queries
    name = 'far-%dx%d-%s' % (nt, npn, which)
    if paths.aborted:
        res['obls'].append((name + '/other-lengths', 'inconclusive', 'solver gave unknown while enumerating further feasible lengths'))
    for pi_, p in enumerate(paths):
        if p.exc is not None:
            raise symx.HarnessError('%s: %r' % (name, p.exc)) from p.exc
        o = p.value
        v = o['v']
        ok_shape = o['zen'].size == nt * npn and o['azi'].size == nt * npn and o['gain'].shape[:2] == (nt, npn)
        oname = '%s/path%d/count' % (name, pi_)
        if not ok_shape:
            s_ = z3.Solver()
            s_.set('timeout', qt)
            s_.add(p.pc + p.axioms)
            args_ = (10.0, 7.5, 0.0, 0.1)
            if str(s_.check()) == 'sat':
                args_ = tuple(fp.fp_model_value(s_.model(), v[k]) if isinstance(v[k], SF) else v[k] for k in ('t0', 'ti', 'p0', 'pi'))
            rep = replay_far(mm, nt, npn, *args_)
            if rep:
                res['violations'].append(rep)
                res['obls'].append((oname, 'violation', rep[1]))
            else:
                res['obls'].append((oname, 'spurious', None))
            continue
        res['obls'].append((oname, 'discharged', 'N_theta*N_phi = %d rows' % (nt * npn)))
        goals = []
        zen, azi = o['zen'], o['azi']            # meshgrid(zen, azi): shape (n_phi, n_theta)
        for a in range(npn):
            for t in range(nt):
                zr = SF.lift(v['t0']) + SF(fpval(t)) * SF.lift(v['ti'])
                ar = SF.lift(v['p0']) + SF(fpval(a)) * SF.lift(v['pi'])
                goals.append(z3.fpEQ(SF.lift(zen[a][t]).t, zr.t))
                goals.append(z3.fpEQ(SF.lift(azi[a][t]).t, ar.t))
        s = z3.Solver()
        s.set('timeout', qt)
        s.add(p.pc + p.axioms)
        s.add(z3.Not(z3.And(*goals)))
        t = time.time()
        r = str(s.check())
        res['solver_s'] += time.time() - t
        res['queries'] += 1
        oname = '%s/path%d/angles=start+i*step' % (name, pi_)
        if r == 'unsat':
            res['obls'].append((oname, 'discharged', None))
        elif r == 'unknown':
            res['obls'].append((oname, 'inconclusive', None))
        else:
            mdl = s.model()
            c = {k: (fp.fp_model_value(mdl, x) if isinstance(x, SF) else x) for k, x in v.items()}
            rep = replay_far(mm, nt, npn, c['t0'], c['ti'], c['p0'], c['pi'])
            if rep is None:
                res['obls'].append((oname, 'spurious', c))
            else:
                res['violations'].append(rep)
                res['obls'].append((oname, 'violation', rep[1]))
    # every table written from one computed pattern has the rows of the arrays whose shape was decided above, in whatever
    # order and however often the tables are written (both far-field options in one run, a report printed twice)
    for seq in (('db', 'abs'), ('abs', 'db'), ('db', 'db'), ('abs', 'abs')):
        rep = render_rows(M, nt, npn, seq)
        oname = '%s/rows of tables written in the order %s' % (name, '+'.join(seq))
        if rep is None:
            res['obls'].append((oname, 'discharged', '%d rows each' % (nt * npn)))
        else:
            rr = render_rows(mm, nt, npn, seq)
            if rr is None:
                res['obls'].append((oname, 'spurious', rep))
            else:
                res['violations'].append(('C16:far-field:table-rows', rr, dict(kind='far-rows', nt=nt, np=npn, seq=list(seq))))
                res['obls'].append((oname, 'violation', rr))
    res['wall'] = time.time() - t0
    return res


def render_rows(M, nt, npn, seq):
    """None if every table of the sequence has nt*npn data rows; else a description."""
    m = catalogue.build(M, 'G1')
    m.power = 1.0
    m.current = np.ones(len(m.pulses), dtype=complex)
    m.compute_far_field(M.Angle(80.0, -10.0, nt), M.Angle(0.1, 0.1, npn), pwr=100.0, dist=1000.0)
    ff = m.far_field
    for k, what in enumerate(seq):
        txt = ff.db_as_mininec() if what == 'db' else ff.abs_gain_as_mininec()
        rows = [l for l in txt.split('\n') if l.strip()]
        if len(rows) != nt * npn:
            return 'table %d (%s) of the sequence %s written from one far-field pattern has %d rows, requested %d x %d' % (
                k + 1, 'dBi' if what == 'db' else 'V/m', '+'.join(seq), len(rows), nt, npn)
        # row i is labelled with the i-th requested direction (zenith fastest), also for descending steps (80, 70, ...)
        i = 0
        for a in range(npn):
            for t in range(nt):
                lab = rows[i].split()[:2]
                want = (80.0 - 10.0 * t, 0.1 + 0.1 * a)
                if abs(float(lab[0]) - want[0]) > 5e-6 * max(1.0, abs(want[0])) or abs(float(lab[1]) - want[1]) > 5e-6:
                    return 'row %d of the %s table is labelled (zenith, azimuth) = (%s, %s), requested (%g, %g)' % (
                        i + 1, 'dBi' if what == 'db' else 'V/m', lab[0], lab[1], want[0], want[1])
                i += 1
    return None


def replay_far(mm, nt, npn, t0, ti, p0, pi_):
    m = catalogue.build(mm, 'G1')
    m.power = 1.0
    m.current = np.ones(len(m.pulses), dtype=complex)
    m.compute_far_field(mm.Angle(t0, ti, nt), mm.Angle(p0, pi_, npn))
    ff = m.far_field
    rows = ff.db_as_mininec().split('\n')
    if len(rows) != nt * npn or ff.zen.size != nt * npn:
        return ('C16:far-field:count', 'far-field table has %d rows, expected %d' % (len(rows), nt * npn),
                dict(kind='far', nt=nt, np=npn, args=[t0, ti, p0, pi_]))
    for a in range(npn):
        for t in range(nt):
            if not close(ff.zen[a][t], t0 + t * ti, 1e-12, 1e-12) or not close(ff.azi[a][t], p0 + a * pi_, 1e-12, 1e-12):
                return ('C16:far-field:angles', 'far-field row (theta %d, phi %d) is at (%r, %r), expected (%r, %r)' % (
                    t, a, ff.zen[a][t], ff.azi[a][t], t0 + t * ti, p0 + a * pi_),
                    dict(kind='far', nt=nt, np=npn, args=[t0, ti, p0, pi_]))
    return None


def main(args):
    ck = Check('C16', args)
    tier = ck.tier
    if tier == 'quick':
        qt = 150000          # only spent when the code really needs floating-point length reasoning
        near = [(tier, n, ax, qt) for n, ax in ((1, 0), (2, 1), (3, 0), (3, 2), (4, 1), (5, 0), (6, 2), (7, 0),
                                                (8, 1), (9, 2), (10, 0), (11, 1), (12, 2), (3, 3), (3, 4), (3, 5), (1, 3), (2, 4), (21, 3))]
        far = [(tier, 3, 4, qt, 'theta'), (tier, 3, 4, qt, 'phi'), (tier, 1, 1, qt, 'theta'), (tier, 7, 2, qt, 'theta'), (tier, 2, 6, qt, 'phi')]
    else:
        qt = 300000
        near = [(tier, n, n % 3, qt) for n in list(range(1, 41)) + [50, 64, 73, 100]] + [(tier, n, 3 + a, qt) for n in (1, 2, 3, 4, 9, 21) for a in range(3)]
        far = [(tier, a, b, qt, w) for a, b in ((1, 1), (3, 4), (7, 2), (19, 3), (10, 37), (100, 2), (2, 100)) for w in ('theta', 'phi')]
    ck.shadow_stats = symx.load().stats
    with mp.Pool(min(16, os.cpu_count() or 1)) as pool:
        results = pool.map(far_job, far) + pool.map(near_job, near, chunksize=1) + pool.map(second_request_job, [(tier,)])
    funcs = set()
    for r in results:
        funcs.update(r['functions'])
        ck.solver_s += r['solver_s']
        ck.queries += r['queries']
        ck.paths += r['paths']
        for name, verdict, detail in r['obls']:
            if verdict == 'violation':
                continue
            ck.record(name, verdict, detail,
                      sample=dict(obligation=name, kind=r['kind'], count=r['n'], verdict=verdict,
                                  symbolic_inputs=['start (Float64)', 'inc (Float64)'], detail=detail))
        for key, what, rd in r['violations']:
            verdict = ck.report_violation(key, what, rd)
            ck.record('%s/%s' % (r['kind'], rd.get('n')), verdict, what,
                      sample=dict(kind=r['kind'], counterexample=rd, verdict=verdict))
    ck.twin('all-jobs', ck.paths > 0)
    ck.functions = funcs
    rg = RANGES[tier]
    ck.bounds.update(near_counts=[j[1] for j in near], far_counts=[(j[1], j[2]) for j in far],
                     ranges='|start| <= %g, %g <= |inc| <= %g (finite doubles, both signs); far-field |angles| <= 720'
                     % (rg['smax'], rg['imin'], rg['imax']), query_timeout_ms=qt)
    ck.assumptions += ['start/increment are finite IEEE doubles in the stated ranges; counts are the concrete values listed',
                       'np.arange modelled by numpy\'s documented rule: length = ceil((stop-start)/step) in double '
                       'arithmetic, fill a[k] = start + k*((start+step)-start)',
                       'per-point field evaluation stubbed out (near_field_iter of the instance returns no points; '
                       'far-field angle_rad returns placeholder angles): only the sample-point tables are under test']
    ck.stubs += ['np.arange -> symbolic-length model (symx.fp.numpy_arange)', 'Angle.angle_rad -> placeholder',
                 'near_field_iter (instance) -> empty']
    ck.outside += ['counts not listed', 'values outside the stated ranges', 'non-finite inputs (C20)']
    return ck.finish('Real grid construction of compute_near_field and real Angle.angle_deg/compute_far_field angle tables '
                     'executed on z3 Float64 start/increment; length and values decided in QF_FP for all doubles in range, '
                     'one job per count, 16 in parallel.')


if __name__ == '__main__':
    run_check('C16', main)
