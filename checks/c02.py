"""C02 -- impedance-matrix terms = the published MININEC-3 potential-integral formulation.

(A) assembly.  The real compute_impedance_matrix / vector_potential / scalar_potential / psi run on
    catalogue geometries with the numerical integration (fast_quad) replaced by the psi-atom stub:
    every Z[m][n] comes out as a linear form over integral-atoms.  The reference
    (refmodels/mininec3.py) writes the published formulation from pulse geometry only over the same
    atom table.  For every pair of pulses at least 2.5 segments apart z3 decides, for ALL values of
    the atoms in a box and given only the additivity of an integral over its two halves, that the two
    linear forms agree.  A structural difference is replayed numerically on the real code against
    adaptive quadrature with the tolerance the property states (1e-4 of the sum of the terms).
(B) quadrature.  The real fast_quad with the real legendre_cache integrates an arbitrary polynomial of
    degree < 2n exactly (symbolic coefficients, linear real arithmetic).
(C) kernel.  The real integral_i2_i3 on symbolic parameter / vectors / radius / wave number equals
    exp(-jwR)/R, R^2 = rho^2 + a^2 above the small-radius limit and R = rho below it (exp, sqrt as
    uninterpreted functions: equality by congruence); for the image the two ends are swapped.
(D) order rule.  Every integration the assembly asked for used Gauss order 8 / 4 / 2 for
    t <= 6 / 6 < t <= 10 / t > 10 (t: sum of the distances to the two ends over the segment length).
"""
import math
from fractions import Fraction
import numpy as np
import z3

from .common import Check, run_check, prove_paths, run_parallel
import symx
from symx import SR, SC, core, npf, psistub, poly
from refmodels import catalogue, mininec3

MIN_SEP = 2.5


def _kind(p):
    if np.asarray(p.ground).any():
        return 'grounded'
    if p.geo[0] is not p.geo[1]:
        return 'junction'
    return 'interior'


def _coef_sum(terms):
    tot = Fraction(0)
    for t in terms:
        t = SC.lift(t)
        for part in (t.nr, t.ni):
            for m, c in poly.expand(part).items():
                tot += abs(c)
    return tot


def assembly(ck, sh, mm, gname, nmul, then_f=None):
    M = sh.mininec
    T = psistub.AtomTable()
    psistub.install(M, T)
    holder = {}

    def fn():
        c = symx.ctx()
        m = catalogue.build(M, gname, nmul=nmul)
        if then_f is not None:
            # a sweep step: the model was built (and filled) at another frequency before; 'same': a second fill of the same object at
            # the same frequency, nothing assigned in between
            with symx.object_arrays():
                m.compute_impedance_matrix()
            if then_f != 'same':
                m.f = then_f
        with symx.object_arrays():
            m.compute_impedance_matrix()
        n = len(m.pulses)
        ax = []
        psi = mininec3.atom_psi(T, m, ax)
        ents = []
        for i in range(n):
            for j in range(n):
                sep = mininec3.separation(m.pulses[i], m.pulses[j])
                if sep < MIN_SEP:
                    continue
                ref, terms = mininec3.entry(m, i, j, psi)
                ents.append((i, j, SC.lift(m.Z[i][j]), ref, _coef_sum(terms)))
        for a in ax:
            c.axiom(a)
        for b in T.box(1.0):
            c.assume(b)
        holder['m'] = m
        return dict(inputs={}, ents=ents, n=n)

    def goals(o):
        g = []
        for i, j, z, ref, cs in o['ents']:
            d = z - ref
            if d.dr is not None:
                raise symx.HarnessError('assembly: unexpected denominator in Z[%d][%d]' % (i, j))
            tol = core.RV(cs * Fraction(1, 10 ** 9) + Fraction(1, 10 ** 30))
            g.append(('Z[%d][%d] = published formulation' % (i, j),
                      z3.And(d.nr <= tol, d.nr >= -tol, d.ni <= tol, d.ni >= -tol)))
        return g

    def replay(conc, gn, out):
        i, j = [int(x) for x in gn.split(']')[0:2][0].split('[')[1:2] + gn.split('][')[1].split(']')[0:1]]
        return replay_entry(mm, gname, nmul, i, j, then_f)
    prove_paths(ck, 'assembly-%s-x%d%s' % (gname, nmul, '' if then_f is None else '-filled-twice' if then_f == 'same' else '-then-%gMHz' % then_f), fn, goals, replay, max_paths=2,
                timeout_ms=20000 if ck.tier == 'quick' else 120000, twin_timeout_ms=20000)
    # (D) order rule on the integrations this run asked for
    order_rule(ck, gname, nmul, T, holder.get('m'))
    ck.bounds.setdefault('assembly', []).append('%s with %dx segments: %d pulses, %d integral atoms'
                                                % (gname, nmul, len(holder['m'].pulses) if holder.get('m') else -1, len(T.atoms)))


def replay_entry(mm, gname, nmul, i, j, then_f=None):
    """The property's own sentence on the real code for one entry."""
    m = catalogue.build(mm, gname, nmul=nmul)
    m.compute_impedance_matrix()
    if then_f is not None:
        if then_f != 'same':
            m.f = then_f
        m.compute_impedance_matrix()
    v, terms = mininec3.entry(m, i, j, mininec3.quad_psi(m))
    sc = sum(abs(t) for t in terms)
    err = abs(v - m.Z[i, j])
    if err <= 1e-4 * sc:
        return None
    pm, pn = m.pulses[i], m.pulses[j]
    return ('C02:assembly:%s:source-%s:observer-%s' % ('ground' if m.media is not None else 'free', _kind(pn), _kind(pm)),
            '%s (x%d segments): Z[%d][%d] = %r, the published formulation integrated adaptively gives %r '
            '(deviation %.3g of the sum of its potential terms; separation %.1f segments)'
            % (gname, nmul, i, j, complex(m.Z[i, j]), complex(v), err / sc, mininec3.separation(pm, pn)),
            dict(kind='assembly', geometry=gname, nmul=nmul, i=i, j=j))


def replay_sentence(mm, key, what_prefix, extra=()):
    """A candidate from the kernel / quadrature clauses is a violation only if the property's own
    sentence fails: some entry between separated pulses deviates from the adaptively integrated
    published formulation by more than 1e-4 of its terms (thin and thick wires, free space and ground)."""
    # G19 with a quarter of its radii: a thin (r <= 1e-4 wavelength) and a thick wire in ONE model
    todo = [(g, sr, None) for g in ('G2', 'G9', 'G8') for sr in (1.0, 4.0)] + [('G19', 0.25, None), ('G20', 0.25, None)]
    todo += [('given', 1.0, e) for e in extra if callable(e)]
    todo += [(e, 1.0, None) for e in extra if not callable(e)]
    for gname, scale_r, given in todo:
        if True:
            if given is not None:
                m = given()
                gname = 'the model of the candidate'
            else:
                m = catalogue.build(mm, gname, nmul=2, rmul=scale_r)
            m.compute_impedance_matrix()
            psi = mininec3.quad_psi(m)
            n = len(m.pulses)
            for i in range(n):
                for j in range(n):
                    if mininec3.separation(m.pulses[i], m.pulses[j]) < MIN_SEP:
                        continue
                    v, terms = mininec3.entry(m, i, j, psi)
                    sc = sum(abs(t) for t in terms)
                    if abs(v - m.Z[i, j]) > 1e-4 * sc:
                        return (key, '%s; consequence on %s (radius x%g): Z[%d][%d] = %r, published formulation %r (%.3g of its terms)'
                                % (what_prefix, gname, scale_r, i, j, complex(m.Z[i, j]), complex(v), abs(v - m.Z[i, j]) / sc),
                                dict(kind='sentence', geometry=gname))
    return None


def order_rule(ck, gname, nmul, T, m):
    """(D): per recorded integration, n asked for == rule(t).  t is recomputed from the recorded
    arguments; the rule is stated as a z3 formula over t and decided per call class (one query per
    distinct (t-bucket, n) pair, t symbolic within the bucket the call falls into)."""
    if m is None:
        return
    classes = {}
    for ai, n in T.calls:
        v2, vv, k, r, ex, ub, w = T.args[ai]
        # segment length of the integration: |vv - v2| / frac, frac unknown here -> use both readings
        classes.setdefault(n, 0)
        classes[n] += 1
    ck.notes.append('%s x%d: Gauss orders requested by the assembly run: %s' % (gname, nmul, dict(classes)))


def gauss_exact(ck, sh, mm):
    """(B)"""
    M = sh.mininec
    for n in (2, 4, 8):
        for ub in (1.0, 0.5):
            def fn(n=n, ub=ub):
                c = symx.ctx()
                deg = 2 * n
                cs = [SR.var('c%d' % i) for i in range(deg)]
                for v in cs:
                    c.assume(z3.And(v.n >= -1, v.n <= 1))
                m = catalogue.build(M, 'G1')

                def integrand(t, *args):
                    t = np.asarray(t)
                    acc = np.zeros(t.shape, dtype=object)
                    for i, ci in enumerate(cs):
                        acc = acc + ci * (t ** i)
                    return acc
                m.integral_i2_i3 = integrand
                with symx.object_arrays():
                    r = m.fast_quad(0, ub, (), n)
                exact = SR.lift(0.0)
                for i, ci in enumerate(cs):
                    exact = exact + ci * (Fraction(ub) ** i / (i + 1))
                return dict(inputs=dict(c=cs), r=r, exact=exact)

            def goals(o):
                d = SR.lift(o['r']) - o['exact']
                tol = core.RV(Fraction(1, 10 ** 12))
                return [('Gauss-%d on [0,%g]: exact for degree < %d' % (n, ub, 2 * n),
                         z3.And(d.n <= tol * d.den, d.n >= -tol * d.den))]

            def replay(conc, gn, out, n=n, ub=ub):
                m = catalogue.build(mm, 'G1')
                cs = [float(x) for x in conc['c']]
                m.integral_i2_i3 = lambda t, *a: sum(ci * np.asarray(t) ** i for i, ci in enumerate(cs))
                r = m.fast_quad(0, ub, (), n)
                ex = sum(ci * ub ** i / (i + 1) for i, ci in enumerate(cs))
                if abs(r - ex) <= 1e-10:
                    return None
                return replay_sentence(mm, 'C02:quadrature:gauss-%d' % n, 'fast_quad order %d on [0,%g] integrates the polynomial %r to %r, exact %r'
                                       % (n, ub, cs, r, ex))
            prove_paths(ck, 'gauss-%d-%g' % (n, ub), fn, goals, replay, max_paths=4)
    ck.bounds['quadrature'] = 'orders 2, 4, 8 of legendre_cache, upper bounds 1 and 1/2, polynomial coefficients in [-1, 1]'


def kernel(ck, sh, mm, thick, image, mixed=False):
    """(C) reduced kernel of integral_i2_i3 for one (radius class, image) combination."""
    M = sh.mininec
    core.CIRCLE_MODE = 'uf'

    def fn():
        c = symx.ctx()
        m = catalogue.build(M, 'G7' if image else 'G1')
        t = SR.var('t')
        c.assume(z3.And(t.n >= 0, t.n <= 1))
        v2 = [SR.var('a%d' % i) for i in range(3)]
        vv = [SR.var('b%d' % i) for i in range(3)]
        r = SR.var('r')
        srm = Fraction(float(m.srm))
        if thick:
            c.assume(z3.And(r.n > core.RV(srm), r.n <= 1))
        else:
            c.assume(z3.And(r.n > 0, r.n <= core.RV(srm)))
        # the element under test sits in a batch (as in the matrix fill, where one call covers all pulse pairs) whose other
        # element is a wire of the OTHER radius class: what one element gets must not depend on its neighbours in the batch
        ro = SR.var('r_other')
        if thick:
            c.assume(z3.And(ro.n > 0, ro.n <= core.RV(srm)))
        else:
            c.assume(z3.And(ro.n > core.RV(srm), ro.n <= 1))
        nb = 2 if mixed else 1
        a = np.empty((nb, 3), dtype=object)
        b = np.empty((nb, 3), dtype=object)
        tt = np.empty((nb, 1), dtype=object)
        ra = np.empty(nb, dtype=object)
        for k in range(nb):
            a[k, :] = v2
            b[k, :] = vv
            tt[k, 0] = t
            ra[k] = r if k == 0 else ro
        with symx.object_arrays():
            res = m.integral_i2_i3(tt, a, b, -1 if image else 1, ra, np.array([False] * nb))
        res = res.reshape(-1)
        # oracle
        p, q = (vv, v2) if image else (v2, vv)
        rho2 = SR.lift(0.0)
        for i in range(3):
            x = p[i] + (q[i] - p[i]) * t
            rho2 = rho2 + x * x
        R = (rho2 + r * r).sqrt() if thick else rho2.sqrt()
        ref = (SC(0.0, -1.0) * (R * float(m.w))).exp() / R
        return dict(inputs=dict(t=t, a=v2, b=vv, r=r, r_other=ro), res=res[0], ref=ref, w=float(m.w))

    def goals(o):
        return [('kernel = exp(-jwR)/R', core.eq_term(o['res'], o['ref']))]

    def replay(conc, gn, out):
        m = catalogue.build(mm, 'G7' if image else 'G1')
        a, b = np.array([float(x) for x in conc['a']]), np.array([float(x) for x in conc['b']])
        t, r = float(conc['t']), float(conc['r'])
        if mixed:
            ro = float(conc['r_other'])
            if not ((ro > m.srm) != (r > m.srm) and ro > 0):
                ro = m.srm * (0.5 if r > m.srm else 20.0)
            res = m.integral_i2_i3(np.array([[t], [t]]), np.array([a, a]), np.array([b, b]), -1 if image else 1, np.array([r, ro]),
                                   np.array([False, False])).reshape(-1)[0]
        else:
            res = m.integral_i2_i3(np.array([[t]]), a[None, :], b[None, :], -1 if image else 1, np.array([r]), np.array([False])).reshape(-1)[0]
        p, q = (b, a) if image else (a, b)
        x = p + (q - p) * t
        R = math.sqrt(x @ x + (r * r if r > m.srm else 0.0))
        if R == 0:
            return None
        ref = np.exp(-1j * m.w * R) / R
        if abs(res - ref) <= 1e-9 * abs(ref):
            return None
        return replay_sentence(mm, 'C02:kernel:%s:%s%s' % ('thick' if thick else 'thin', 'image' if image else 'direct', ':mixed-batch' if mixed else ''),
                               'integral_i2_i3(t=%r, %r, %r, r=%r%s) = %r, published reduced kernel %r'
                               % (t, a, b, r, ', evaluated together with a wire of the other radius class' if mixed else '', res, ref))
    prove_paths(ck, 'kernel-%s-%s%s' % ('thick' if thick else 'thin', 'image' if image else 'direct', '-mixed' if mixed else ''), fn, goals, replay,
                max_paths=16, sqrt_mode='uf')


def nvg_flag(ck, sh, mm):
    """The matrix fill takes a shortcut (entries copied from an earlier pair of the same wire) that the code itself switches off for
    pulses on a grounded wire that is not exactly vertical (Pulse.is_non_vertical_grounded): for those the image term differs from
    pair to pair.  The real property runs on a pulse whose segment direction is an arbitrary vector: whenever the pulse is grounded
    and the direction has ANY horizontal component the switch is on.  (One-sided: switching the shortcut off more often is harmless.)
    A candidate direction is replayed as a grounded wire of that direction against the adaptively integrated formulation."""
    P = sh.pulse

    class Geo:
        n = 0
        tag = 1

    class Seg:
        geobj = Geo()

    for gnd in (0, 1):
        def fn(gnd=gnd):
            c = symx.ctx()
            d = [SR.var('d%d' % i) for i in range(3)]
            c.assume(core.eq_term(d[0] * d[0] + d[1] * d[1] + d[2] * d[2], SR.lift(1.0)))
            c.assume(z3.Or(d[0].n != 0, d[1].n != 0))
            seg = Seg()
            seg.dirvec = np.empty(3, dtype=object)
            seg.dirvec[:] = d
            cont = P.Pulse_Container()
            z = np.zeros(3)
            p = P.Pulse(cont, z, z, z, seg, seg, gnd=gnd)
            with symx.object_arrays():
                flag = p.is_non_vertical_grounded
                if isinstance(flag, np.ndarray):
                    flag = flag.all()
                flag = bool(flag)
            return dict(inputs=dict(d=d), flag=flag)

        def goals(o):
            return [('grounded pulse, direction with a horizontal component: shortcut switched off', z3.BoolVal(bool(o['flag'])))]

        def replay(conc, gn, out, gnd=gnd):
            d = np.array([float(x) for x in conc['d']])
            nrm = np.linalg.norm(d)
            if nrm == 0 or (d[0] == 0 and d[1] == 0):
                return None
            d = d / nrm
            if abs(d[2]) < 0.05:
                d = d + np.array([0, 0, 0.3])           # a wire lying on the ground plane is not a legal model; keep the horizontal direction
                d = d / np.linalg.norm(d)
            d = d * (1 if d[2] > 0 else -1)

            def given():
                top = tuple(2.4 * d)
                ends = ((0.0, 0.0, 0.0), top) if gnd == 0 else (top, (0.0, 0.0, 0.0))
                return mm.Mininec(catalogue.F0, [mm.Wire(8, *ends[0], *ends[1], 0.002)], media=[mm.Medium(0, 0)])
            return replay_sentence(mm, 'C02:shortcut-flag:grounded-end%d' % (gnd + 1),
                                   'a pulse grounded at end %d on a wire of direction %r is treated as vertical by the fill shortcut' % (gnd + 1, list(d)),
                                   extra=(given,))
        prove_paths(ck, 'shortcut-flag-gnd%d' % gnd, fn, goals, replay, max_paths=16)


def shortcut_preds(ck, sh, mm):
    """The fill copies entries between pairs of pulses of one object when the code's own per-pulse predicates say that the two segments
    of the pulse have the same direction and the same length.  The real predicates run on a pulse whose two segments have ARBITRARY
    direction vectors and lengths: whenever a predicate answers 'same', they are the same (one-sided: answering 'different' for equal
    segments only costs time).  A candidate is replayed on the members whose neighbouring segments differ in direction (elliptical
    helix, arc) or in length (tapered wires) against the adaptively integrated formulation."""
    P = sh.pulse

    class Geo:
        n = 0
        tag = 1

    class Seg:
        pass

    def fn():
        c = symx.ctx()
        d1 = [SR.var('d1_%d' % i) for i in range(3)]
        d2 = [SR.var('d2_%d' % i) for i in range(3)]
        l1, l2 = SR.var('l1'), SR.var('l2')
        c.assume(z3.And(l1.n > 0, l2.n > 0))
        for d in (d1, d2):
            c.assume(core.eq_term(d[0] * d[0] + d[1] * d[1] + d[2] * d[2], SR.lift(1.0)))
        g = Geo()
        segs = []
        for d, l in ((d1, l1), (d2, l2)):
            sg = Seg()
            sg.geobj = g
            sg.dirvec = np.empty(3, dtype=object)
            sg.dirvec[:] = d
            sg.seg_len = l
            segs.append(sg)
        cont = P.Pulse_Container()
        z = np.zeros(3)
        P.Pulse(cont, z, z, z, segs[0], segs[1])
        with symx.object_arrays():
            sd = bool(np.asarray(cont.same_dir).reshape(-1)[0])
            sl = bool(np.asarray(cont.same_len).reshape(-1)[0])
        return dict(inputs=dict(d1=d1, d2=d2, l1=l1, l2=l2), sd=sd, sl=sl)

    def goals(o):
        i = o['inputs']
        return [("'same direction' only for equal direction vectors", z3.Or(z3.BoolVal(not o['sd']), z3.And(*[core.eq_term(a, b) for a, b in zip(i['d1'], i['d2'])]))),
                ("'same length' only for equal lengths", z3.Or(z3.BoolVal(not o['sl']), core.eq_term(i['l1'], i['l2'])))]

    def replay(conc, gn, out):
        return replay_sentence(mm, 'C02:shortcut-predicate:%s' % ('direction' if 'direction' in gn else 'length'),
                               'segments with directions %r / %r and lengths %r / %r are taken for the same by the fill shortcut'
                               % ([float(x) for x in conc['d1']], [float(x) for x in conc['d2']], float(conc['l1']), float(conc['l2'])),
                               extra=('G13', 'G12', 'G11', 'G21'))
    prove_paths(ck, 'shortcut-predicates', fn, goals, replay, max_paths=64)


def main(args):
    ck = Check('C02', args)
    ck.shadow_stats = symx.load().stats
    if ck.tier == 'quick':
        parts = [('assembly', (g, 2)) for g in ('G2', 'G4', 'G6', 'G8', 'G9', 'G11', 'G15', 'G16', 'G19', 'G20', 'G21', 'G22')]
    else:
        parts = [('assembly', (g, 3)) for g in catalogue.CAT]
    # sweep steps: thick wires at the thin-wire limit (G19/G20) and ordinary ones, second frequency on the other side of the small-radius limit
    parts += [('assembly', (g, 2, 12.0)) for g in (('G19', 'G2') if ck.tier == 'quick' else ('G19', 'G20', 'G2', 'G9', 'G11'))]
    parts += [('assembly', ('G24', 1)), ('assembly', ('G24', 1, 0.125))]
    parts += [('assembly', (g, 2, 'same')) for g in (('G2', 'G8') if ck.tier == 'quick' else ('G2', 'G8', 'G9', 'G21'))]
    parts += [('gauss_exact', ())]
    parts += [('kernel', (th, im)) for th in (True, False) for im in (False, True)]
    parts += [('kernel', (th, im, True)) for th in (True, False) for im in (False, True)]
    parts += [('nvg_flag', ()), ('shortcut_preds', ())]
    run_parallel(ck, 'checks.c02', parts)
    ck.assumptions += [
        'geometry: catalogue members with 2x (quick) / 3x (thorough) the catalogue segment counts, concrete coordinates',
        'every numerical integral is an unknown complex number (atom) identified by the inner products of the relative '
        'end vectors, radius, kernel flag and upper bound in electrical units; atoms range over [-1,1]^2',
        'additivity of an integral over the two halves of its segment (one linear equation per full-segment integral of the reference)',
        'pairs of pulses whose centres are at least 2.5 times the longest of their four segment lengths apart (the claim of the property)']
    ck.stubs += ['Mininec.fast_quad -> psi-atom stub (symx/psistub.py); Mininec.psi, vector_potential, scalar_potential, '
                 'compute_impedance_matrix run unmodified', 'exp, sqrt -> uninterpreted functions in the kernel clause']
    ck.outside += ['accuracy of the Gauss quadrature of order 8/4/2 against adaptive quadrature (numerical analysis; evaluated only in '
                   'the replay of a structural difference)', 'pairs closer than 2.5 segments (outside the property)',
                   'the exact-kernel branch with its elliptic integral (only reachable for t <= 1.1, i.e. never for claimed pairs)',
                   'geometries outside the catalogue']
    return ck.finish('Real matrix fill on concrete catalogue geometry with every numerical integral replaced by an unknown; z3 decides '
                     'per claimed entry that code and published formulation are the same linear form for all values of the integrals; '
                     'Gauss exactness of fast_quad in LRA; kernel formula by congruence.')


if __name__ == '__main__':
    run_check('C02', main)
