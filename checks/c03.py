"""C03 -- image theory: ideal ground = free space + mirrored antenna.

For a catalogue antenna over ideal ground (model G) the free-space pair (model F) is built through the
public API: every wire W(p1, p2) plus its image W'(mirror p2, mirror p1), so that wires ending on the
plane continue into their image.  Pulses are matched by position and flow direction (no use of the
code's own sign bookkeeping).  With every numerical integral an unknown (psi-atom stub) z3 decides
for ALL values of those unknowns:

 (a) block algebra, entry by entry:   Z_G[p][q] = s_p s_q Z_F[p'][q'] + s_p s^_q Z_F[p'][q^]   (q above ground)
                                      Z_G[p][g] = s_p s_g Z_F[p'][g']                            (g on the plane)
     -- hence, for any current vector I_G, the free-space currents (I, image of I, I_g) satisfy the
     free-space equations row by row whenever I_G satisfies the ground equations;
 (b) right-hand side / loads with symbolic voltage and load value: a source V on a grounded pulse equals
     a source 2V on the junction pulse of wire+image (half the impedance), a load Z_L there equals 2 Z_L;
     elsewhere source and load appear unchanged on the pulse and (in mirror sense) on its image;
 (c) far field for ALL currents: E_theta, E_phi of G equal those of F with the image currents in the
     upper hemisphere; with P_F = 2 P_G the dBi tables differ by 10 log10(2) = 3.0103 (table identity of C10).

A structural difference is replayed by the property's own sentence on the real code: both models are
solved for a feed on every pulse and compared (5e-4 scaled by the condition number; 0.01 dB).
"""
import math
from fractions import Fraction
import numpy as np
import z3

from .common import Check, run_check, prove_paths, run_parallel, close
import symx
from symx import SR, SC, core, npf, psistub
from refmodels import catalogue, farfield
from . import psi_common as pc
from .c10 import _box_currents, _set_currents

MIRROR = np.array([1.0, 1.0, -1.0])
DIRS = [(20.0, 15.0), (60.0, 120.0), (85.0, 300.0), (0.0, 40.0)]


def mirror(x):
    return np.asarray(x, dtype=float) * MIRROR


def free_space_pair(M, gname, nmul=1):
    objs, gnd = catalogue.spec(gname, nmul=nmul)
    geo = []
    for o in objs:
        if o[0] != 'w':
            raise symx.HarnessError('image model: only wires')
        p1, p2 = np.array(o[2], float), np.array(o[3], float)
        w = M.Wire(o[1], *p1, *p2, o[4])
        wb = M.Wire(o[1], *mirror(p2), *mirror(p1), o[4])
        if len(o) > 5:
            w.segtype = o[5]
            wb.segtype = o[5]
        geo += [w, wb]
    return M.Mininec(catalogue.F0, geo)


def is_gnd(p):
    return bool(np.asarray(p.ground).any())


class MapFailure(Exception):
    pass


def maps(mg, mf):
    mo = pc.pulse_map(mg, mf)
    mi = pc.pulse_map(mg, mf, pmap=mirror, image=True)
    for k, p in enumerate(mg.pulses):
        if mo[k] is None or (mi[k] is None and not is_gnd(p)):
            raise MapFailure('pulse %d of the ground model (point %s, far ends %s / %s) has no counterpart in the free-space pair of '
                             'antenna and mirror image' % (k + 1, list(_fl(p.point)), list(_fl(p.ends[0])), list(_fl(p.ends[1]))))
    # and the other way round: every pulse of antenna + image is the original, the image or the on-plane pulse of some pulse over
    # ground (a wire that ends on the plane must be continued into its image there)
    covered = {x[0] for x in mo if x} | {x[0] for x in mi if x}
    for q in mf.pulses:
        if q.idx not in covered:
            raise MapFailure('pulse %d of antenna + image (point %s) has no counterpart over ground: a wire end on the ground plane is not '
                             'continued into its image' % (q.idx + 1, list(_fl(q.point))))
    return mo, mi


def _fl(v):
    return [round(float(x), 6) for x in v]


def blocks(ck, sh, mm, gname, nmul, twice=False):
    M = sh.mininec
    T = psistub.AtomTable()
    pc.install(M, T)

    def fn():
        c = symx.ctx()
        mg = pc.fill(M, catalogue.build(M, gname, nmul=nmul))
        if twice:
            # the same object solved again (a sweep step, a repeated compute): image theory must hold every time
            mg = pc.fill(M, mg)
        mf = pc.fill(M, free_space_pair(M, gname, nmul))
        try:
            mo, mi = maps(mg, mf)
        except MapFailure as e:
            return dict(inputs={}, ents=[], mapfail=str(e))
        ents = []
        n = len(mg.pulses)
        for p in range(n):
            for q in range(n):
                (pf, sp), (qf, sq) = mo[p], mo[q]
                rhs = SC.lift(mf.Z[pf][qf]) * (sp * sq)
                if not is_gnd(mg.pulses[q]):
                    qb, sb = mi[q]
                    rhs = rhs + SC.lift(mf.Z[pf][qb]) * (sp * sb)
                ents.append((p, q, mg.Z[p][q], rhs))
        for a in pc.additivity_axioms(T):
            c.axiom(a)
        for b in T.box(1.0):
            c.assume(b)
        return dict(inputs={}, ents=ents)

    def goals(o):
        if o.get('mapfail'):
            # the pulse geometry itself is not that of wire + image: a candidate, decided by the replay
            return [('every pulse over ground has its counterpart(s) in antenna + image', z3.BoolVal(False))]
        return [('Z_G[%d][%d] = free-space block sum' % (p, q), pc.close_goal(a, b)) for p, q, a, b in o['ents']]

    def replay(conc, gn, out):
        return replay_sentence(mm, gname, nmul, twice=twice)
    prove_paths(ck, 'blocks-%s-x%d%s' % (gname, nmul, '-second-compute' if twice else ''), fn, goals, replay, max_paths=2,
                timeout_ms=20000 if ck.tier == 'quick' else 120000, twin_timeout_ms=20000)
    ck.bounds.setdefault('blocks', []).append('%s x%d: %d integral atoms' % (gname, nmul, len(T.atoms)))


def _maps_by_position(mg, mf):
    """Fallback for the replay when the far ends of a pulse are not those of wire + image: match by the
    pulse point and the direction of the half that lies above ground."""
    def one(p, image):
        pt = mirror(p.point) if image else np.asarray(p.point, float)
        h = 0 if np.asarray(p.ground)[1] else 1              # a half above ground
        d = (np.asarray(p.ends[1], float) - np.asarray(p.point, float)) if h else (np.asarray(p.point, float) - np.asarray(p.ends[0], float))
        d = d / np.linalg.norm(d)
        if image:
            d = d * np.array([-1.0, -1.0, 1.0])
        best = None
        for q in mf.pulses:
            if np.linalg.norm(np.asarray(q.point, float) - pt) > 1e-7:
                continue
            for hh in (0, 1):
                dq = (np.asarray(q.ends[1], float) - np.asarray(q.point, float)) if hh else (np.asarray(q.point, float) - np.asarray(q.ends[0], float))
                dq = dq / np.linalg.norm(dq)
                if np.linalg.norm(dq - d) < 1e-6:
                    best = (q.idx, 1)
                elif np.linalg.norm(dq + d) < 1e-6:
                    best = (q.idx, -1)
            if best:
                break
        return best
    mo = [one(p, False) for p in mg.pulses]
    mi = [None if is_gnd(p) else one(p, True) for p in mg.pulses]
    return mo, mi


def _solve_pair(mm, gname, nmul, feed, V=1 + 0.5j, twice=False, load=None):
    mg = catalogue.build(mm, gname, nmul=nmul)
    mf = free_space_pair(mm, gname, nmul)
    try:
        mo, mi = maps(mg, mf)
    except MapFailure:
        mo, mi = _maps_by_position(mg, mf)
        if any(x is None for x in mo):
            raise
    p = mg.pulses[feed]
    mg.register_source(mm.Excitation(V), feed)
    pf, s = mo[feed]
    if is_gnd(p):
        mf.register_source(mm.Excitation(2 * V * s), pf)
    else:
        mf.register_source(mm.Excitation(V * s), pf)
        qb, sb = mi[feed]
        mf.register_source(mm.Excitation(V * sb), qb)
    if load is not None:
        # the same load on the feed pulse as in the symbolic run: Z_L over ground, 2 Z_L on the plane / Z_L on pulse and image in the pair
        mg.register_load(mm.Impedance_Load(load), feed)
        if is_gnd(p):
            mf.register_load(mm.Impedance_Load(2 * load), pf)
        else:
            ld = mm.Impedance_Load(load)
            mf.register_load(ld, pf)
            mf.register_load(ld, mi[feed][0])
    mg.compute()
    if twice:
        mg.compute()
    mf.compute()
    return mg, mf, mo, mi


def replay_sentence(mm, gname, nmul, feeds=None, twice=False, load=None):
    """currents / impedances / gain of ground model vs free-space pair, feed on every pulse."""
    zen, azi = mm.Angle(5.0, 20.0, 5), mm.Angle(0.0, 45.0, 8)
    mg0 = catalogue.build(mm, gname, nmul=nmul)
    for feed in (range(len(mg0.pulses)) if feeds is None else feeds):
        mg, mf, mo, mi = _solve_pair(mm, gname, nmul, feed, twice=twice, load=load)
        cond = np.linalg.cond(np.asarray(mf.Z, dtype=complex))
        if cond > 1e5:
            continue
        tol = 5e-4 * max(1.0, cond / 1e3)
        ig = np.asarray(mg.current)
        i_f = np.asarray(mf.current)
        scale = np.abs(ig).max()
        for k in range(len(ig)):
            pf, s = mo[k]
            if abs(i_f[pf] * s - ig[k]) > tol * scale:
                return ('C03:currents:%s' % ('grounded-feed' if is_gnd(mg.pulses[feed]) else 'feed-above-ground'),
                        '%s (x%d), feed on pulse %d: current of pulse %d over ground %r, in the free-space pair %r '
                        '(tolerance %.1e, condition number %.0f)' % (gname, nmul, feed + 1, k + 1, complex(ig[k]), complex(i_f[pf] * s), tol, cond),
                        dict(kind='sentence', geometry=gname, nmul=nmul, feed=feed))
        zg = mg.sources[0].impedance
        zf = mf.sources[0].impedance
        fac = 2.0 if is_gnd(mg.pulses[feed]) else 1.0
        if abs(zf - fac * zg) > tol * abs(zf):
            return ('C03:impedance:%s' % ('grounded-feed' if fac == 2 else 'feed-above-ground'),
                    '%s (x%d), feed on pulse %d: impedance over ground %r, free-space pair %r (expected factor %g)'
                    % (gname, nmul, feed + 1, zg, zf, fac), dict(kind='sentence', geometry=gname, nmul=nmul, feed=feed))
        mg.compute_far_field(zen, azi)
        mf.compute_far_field(zen, azi)
        gg, gf = mg.far_field.gain[..., 2], mf.far_field.gain[..., 2]
        ok = (gg > -100) & (gf > -100)
        dev = np.abs(gg - gf - 10 * math.log10(2))[ok]
        if len(dev) and dev.max() > 0.01 * max(1.0, cond / 1e3):
            return ('C03:gain', '%s (x%d), feed on pulse %d: gain over ground is not 3.0103 dB above the free-space pair (%.3f dB off)'
                    % (gname, nmul, feed + 1, dev.max()), dict(kind='sentence', geometry=gname, nmul=nmul, feed=feed))
    return None


def rhs_loads(ck, sh, mm, gname):
    """(b) symbolic voltage and load on every pulse in turn."""
    M = sh.mininec
    m0 = catalogue.build(sh.mininec, gname)
    n = len(m0.pulses)
    for feed in range(n):
        def fn(feed=feed):
            V = SC.var('V')
            ZL = SC.var('ZL')
            mg = catalogue.build(M, gname)
            mf = free_space_pair(M, gname)
            try:
                mo, mi = maps(mg, mf)
            except MapFailure as e:
                return dict(inputs=dict(V=V, ZL=ZL), mapfail=str(e))
            g = is_gnd(mg.pulses[feed])
            pf, s = mo[feed]
            with symx.object_arrays():
                mg.register_source(M.Excitation(V), feed)
                mg.register_load(M.Impedance_Load(ZL), feed)
                if g:
                    mf.register_source(M.Excitation(V * (2 * s)), pf)
                    mf.register_load(M.Impedance_Load(ZL * 2), pf)
                else:
                    qb, sb = mi[feed]
                    mf.register_source(M.Excitation(V * s), pf)
                    mf.register_source(M.Excitation(V * sb), qb)
                    ld = M.Impedance_Load(ZL)
                    mf.register_load(ld, pf)
                    mf.register_load(ld, qb)
                for m in (mg, mf):
                    nn = len(m.pulses)
                    m.Z = np.zeros((nn, nn), dtype=object)
                    m.Z[...] = 0.0
                    m.compute_rhs()
                    m.compute_impedance_matrix_loads()
            return dict(inputs=dict(V=V, ZL=ZL), mg=mg, mf=mf, mo=mo, mi=mi, g=g)

        def goals(o, feed=feed):
            if o.get('mapfail'):
                return [('every pulse over ground has its counterpart(s) in antenna + image', z3.BoolVal(False))]
            mg, mf, mo, mi = o['mg'], o['mf'], o['mo'], o['mi']
            out = []
            conj = []
            for k in range(len(mg.pulses)):
                pf, s = mo[k]
                conj.append(core.eq_term(mf.rhs[pf] * s, mg.rhs[k]))
                conj.append(core.eq_term(mf.Z[pf][pf], mg.Z[k][k]))
                if not is_gnd(mg.pulses[k]):
                    qb, sb = mi[k]
                    conj.append(core.eq_term(mf.rhs[qb] * sb, mg.rhs[k]))
                    conj.append(core.eq_term(mf.Z[qb][qb], mg.Z[k][k]))
            out.append(('source and load on pulse %d appear on pulse and image (2V, 2Z_L on the plane)' % (feed + 1), z3.And(*conj)))
            return out

        def replay(conc, gn, out, feed=feed):
            return replay_sentence(mm, gname, 1, feeds=[feed], load=35 + 120j)
        prove_paths(ck, 'rhs-%s-p%d' % (gname, feed + 1), fn, goals, replay, max_paths=4)


def two_sources(ck, sh, mm, gname):
    """(b') two sources at once, one on a pulse on the plane and one above it, in both registration orders:
    the right-hand side over ground corresponds entry by entry to that of antenna + image (2V on the plane,
    V and mirrored V above it) for all complex V1, V2."""
    M = sh.mininec
    m0 = catalogue.build(sh.mininec, gname)
    gp = [k for k, p in enumerate(m0.pulses) if is_gnd(p)]
    ap = [k for k, p in enumerate(m0.pulses) if not is_gnd(p)]
    if not gp or not ap:
        return
    for order in ((gp[0], ap[-1]), (ap[-1], gp[0]), (ap[0], ap[-1])):
        if order[0] == order[1]:
            continue

        def fn(order=order):
            V = [SC.var('V1'), SC.var('V2')]
            mg = catalogue.build(M, gname)
            mf = free_space_pair(M, gname)
            try:
                mo, mi = maps(mg, mf)
            except MapFailure as e:
                return dict(inputs=dict(V=V), mapfail=str(e))
            with symx.object_arrays():
                for v, k in zip(V, order):
                    mg.register_source(M.Excitation(v), k)
                    pf, s = mo[k]
                    if is_gnd(mg.pulses[k]):
                        mf.register_source(M.Excitation(v * (2 * s)), pf)
                    else:
                        qb, sb = mi[k]
                        mf.register_source(M.Excitation(v * s), pf)
                        mf.register_source(M.Excitation(v * sb), qb)
                mg.compute_rhs()
                mf.compute_rhs()
            return dict(inputs=dict(V=V), mg=mg, mf=mf, mo=mo, mi=mi)

        def goals(o):
            if o.get('mapfail'):
                return [('every pulse over ground has its counterpart(s) in antenna + image', z3.BoolVal(False))]
            mg, mf, mo, mi = o['mg'], o['mf'], o['mo'], o['mi']
            conj = []
            for k in range(len(mg.pulses)):
                pf, s = mo[k]
                conj.append(core.eq_term(SC.lift(mf.rhs[pf]) * s, mg.rhs[k]))
                if not is_gnd(mg.pulses[k]):
                    qb, sb = mi[k]
                    conj.append(core.eq_term(SC.lift(mf.rhs[qb]) * sb, mg.rhs[k]))
            return [('two sources (pulses %d then %d): right-hand side over ground = that of antenna + image' % (order[0] + 1, order[1] + 1), z3.And(*conj))]

        def replay(conc, gn, out, order=order):
            V = [complex(v) for v in conc['V']]
            mg = catalogue.build(mm, gname)
            mf = free_space_pair(mm, gname)
            try:
                mo, mi = maps(mg, mf)
            except MapFailure:
                return replay_sentence(mm, gname, 1)
            for v, k in zip(V, order):
                mg.register_source(mm.Excitation(v), k)
                pf, s = mo[k]
                if is_gnd(mg.pulses[k]):
                    mf.register_source(mm.Excitation(2 * v * s), pf)
                else:
                    qb, sb = mi[k]
                    mf.register_source(mm.Excitation(v * s), pf)
                    mf.register_source(mm.Excitation(v * sb), qb)
            mg.compute()
            mf.compute()
            cond = np.linalg.cond(np.asarray(mf.Z, dtype=complex))
            tol = 5e-4 * max(1.0, cond / 1e3)
            ig, i_f = np.asarray(mg.current), np.asarray(mf.current)
            for k in range(len(ig)):
                pf, s = mo[k]
                if abs(i_f[pf] * s - ig[k]) > tol * np.abs(ig).max():
                    return ('C03:currents:two-sources', '%s, sources %r on pulses %s (in this order): current of pulse %d over ground %r, '
                            'in the free-space pair %r' % (gname, V, [o_ + 1 for o_ in order], k + 1, complex(ig[k]), complex(i_f[pf] * s)),
                            dict(kind='two-sources', geometry=gname, order=list(order)))
            return None
        prove_paths(ck, 'two-sources-%s-%d-%d' % (gname, order[0] + 1, order[1] + 1), fn, goals, replay, max_paths=4)


def far(ck, sh, mm, gname):
    """(c) far field of the ground model = far field of the free-space pair with image currents."""
    M = sh.mininec
    dirs = DIRS[:3] if ck.tier == 'quick' else DIRS
    for th, ph in dirs:
        def fn(th=th, ph=ph):
            mg = catalogue.build(M, gname)
            mf = free_space_pair(M, gname)
            n = len(mg.pulses)
            I = _box_currents(n, 1.0)
            try:
                mo, mi = maps(mg, mf)
            except MapFailure as e:
                return dict(inputs=dict(I=I), mapfail=str(e))
            If = [SC(0.0, 0.0)] * len(mf.pulses)
            for k in range(n):
                pf, s = mo[k]
                If[pf] = I[k] * s
                if not is_gnd(mg.pulses[k]):
                    qb, sb = mi[k]
                    If[qb] = I[k] * sb
            _set_currents(mg, I)
            _set_currents(mf, If)
            mg.power = 1.0
            mf.power = 2.0
            with symx.object_arrays():
                mg.compute_far_field(M.Angle(th, 10.0, 1), M.Angle(ph, 10.0, 1))
                mf.compute_far_field(M.Angle(th, 10.0, 1), M.Angle(ph, 10.0, 1))
            at, ap = farfield.coefficients(mf, th, ph)
            bound = sum(abs(a) for a in at + ap) * 2
            return dict(inputs=dict(I=I), fg=mg.far_field, ff=mf.far_field, bound=bound)

        def goals(o):
            if o.get('mapfail'):
                return [('every pulse over ground has its counterpart(s) in antenna + image', z3.BoolVal(False))]
            tol = core.RV(Fraction(o['bound']) * Fraction(1, 10 ** 9) + Fraction(1, 10 ** 30))
            g = []
            for nm, a, b in (('E_theta', o['fg'].e_theta[0][0], o['ff'].e_theta[0][0]), ('E_phi', o['fg'].e_phi[0][0], o['ff'].e_phi[0][0])):
                d = SC.lift(a) - SC.lift(b)
                g.append(('%s over ground = %s of antenna + image' % (nm, nm),
                          z3.And(d.re.n <= tol * d.re.den, d.re.n >= -tol * d.re.den, d.im.n <= tol * d.im.den, d.im.n >= -tol * d.im.den)))
            return g

        def replay(conc, gn, out, th=th, ph=ph):
            if out.get('mapfail'):
                return replay_sentence(mm, gname, 1)
            I = [complex(x) for x in conc['I']]
            mg = catalogue.build(mm, gname)
            mf = free_space_pair(mm, gname)
            mo, mi = maps(mg, mf)
            If = np.zeros(len(mf.pulses), dtype=complex)
            for k in range(len(I)):
                pf, s = mo[k]
                If[pf] = I[k] * s
                if not is_gnd(mg.pulses[k]):
                    qb, sb = mi[k]
                    If[qb] = I[k] * sb
            mg.current, mf.current = np.array(I), If
            mg.power, mf.power = 1.0, 2.0
            zen, azi = mm.Angle(5.0, 20.0, 5), mm.Angle(0.0, 45.0, 8)
            mg.compute_far_field(zen, azi)
            mf.compute_far_field(zen, azi)
            gg, gf = mg.far_field.gain[..., 2], mf.far_field.gain[..., 2]
            ok = (gg > -100) & (gf > -100) & (gg > gg.max() - 40)
            dev = np.abs(gg - gf - 10 * math.log10(2))[ok]
            if len(dev) and dev.max() > 0.01:
                return ('C03:far-field:image-sum', '%s: with the same currents the pattern over ground is not that of antenna + image '
                        '(gain differs from +3.0103 dB by %.3f dB)' % (gname, dev.max()), dict(kind='far', geometry=gname))
            return None
        prove_paths(ck, 'far-%s-%g-%g' % (gname, th, ph), fn, goals, replay, max_paths=16, fork_policy='assume', twin_timeout_ms=500)


def main(args):
    ck = Check('C03', args)
    ck.shadow_stats = symx.load().stats
    if ck.tier == 'quick':
        parts = [('blocks', (g, 1)) for g in ('G7', 'G8', 'G9', 'G10', 'G14', 'G16', 'G23')]
        parts += [('blocks', (g, 1, True)) for g in ('G8', 'G16')]
        parts += [('rhs_loads', (g,)) for g in ('G8', 'G9')]
        parts += [('two_sources', (g,)) for g in ('G8', 'G9')]
        parts += [('far', (g,)) for g in ('G8', 'G9', 'G14')]
    else:
        parts = [('blocks', (g, 2)) for g in ('G7', 'G8', 'G9', 'G10', 'G14', 'G15', 'G16', 'G23')]
        parts += [('blocks', (g, 1, True)) for g in ('G7', 'G8', 'G9', 'G15', 'G16')]
        parts += [('rhs_loads', (g,)) for g in ('G7', 'G8', 'G9', 'G10', 'G14', 'G16')]
        parts += [('two_sources', (g,)) for g in ('G7', 'G8', 'G9', 'G10', 'G16')]
        parts += [('far', (g,)) for g in ('G7', 'G8', 'G9', 'G10', 'G14', 'G15', 'G16')]
    run_parallel(ck, 'checks.c03', parts)
    ck.assumptions += [
        'geometry: ground members of the catalogue (vertical, sloping and leaning grounded wires grounded at either end, inverted L, two '
        'grounded wires with a top wire, a horizontal wire one segment above ground); the free-space pair is built through the public API',
        'every numerical integral is an unknown complex number (atom) shared by both models; additivity of integrals over halves',
        'pulse currents arbitrary in a box for the far-field clause; V and Z_L arbitrary complex']
    ck.stubs += ['Mininec.fast_quad -> psi-atom stub shared by ground model and free-space pair']
    ck.outside += ['the 5e-4 / condition-number clause under LAPACK rounding (only evaluated in replays)',
                   'self terms that the two descriptions compute through different kernel shortcuts (vertical grounded pulse: diagonal '
                   'shortcut vs junction of wire and image): structurally different, compared numerically in the replay only',
                   'arcs and helices over ground', 'geometries outside the catalogue']
    return ck.finish('Ground model and free-space pair filled over one table of unknown integrals: block identity per matrix entry, '
                     'source/load doubling on the plane, far-field image sum for all currents; decided by z3 (LRA); structural '
                     'differences replayed by solving both models on the real code.')


if __name__ == '__main__':
    run_check('C03', main)
