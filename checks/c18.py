"""C18 -- the generated BASIC-MININEC input describes the same antenna.

The real Mininec.as_basic_input and the per-class writers run on symbolic source voltages, load
values, Laplace coefficients, frequency and media constants; a reference reader consumes the
answers in the prompt order of MININEC-3 and rebuilds the model; z3 decides that the rebuilt
quantities equal the model's for all values.
"""
import math
from fractions import Fraction
import z3
import numpy as np

from .common import Check, run_check, prove_paths, close, run_parallel, laplace_load, ExpectedRefusal
import symx
from symx import SR, SC, SI, core, npf, tokens
from symx.core import eq_term
from refmodels import catalogue
from refmodels.basic_reader import Reader, PromptError
from .c08 import pos

CASES = {
    # name: (catalogue member, media kind, loads kind, version)
    'free-imp':   ('G2', None, 'imp', '9'),
    'gnd-ideal':  ('G9', 'ideal', 'imp', '9'),
    'lap-v9':     ('G1', None, 'lap', '9'),
    'lap-v12':    ('G1', None, 'lap', '12'),
    'media2':     ('G7', 'two-circular-radials', 'none', '9'),
    'media1':     ('G8', 'one', 'imp', '13'),
    'media2-circ-norad': ('G7', 'two-circular', 'none', '9'),        # circular boundary WITHOUT a ground screen: BASIC still asks for the radial count
    'media2-linear': ('G9', 'two-linear', 'none', '12'),
    'media3lin':  ('G7', 'three-linear', 'none', '9'),
    'taper':      ('G11', None, 'imp', '9'),
    'arc':        ('G12', None, 'none', '9'),
    'helix':      ('G13', None, 'imp', '9'),
    'skin':       ('G2', None, 'skin', '9'),
    'taper-skin': ('G11', None, 'skin', '9'),      # distributed load on unequal segments: every pulse has its own value
    'taper-coat': ('G11', None, 'coat', '12'),
    'wire+arc-fuzzy': ('W+A', None, 'imp', '9'),
    # the second source is entered as magnitude and phase in degrees (any sign of the magnitude), the first as a complex voltage
    'src-mag-phase': ('G2', None, 'imp', '9'),
    'src-mag-phase-gnd': ('G9', 'ideal', 'none', '12'),
    # a grounded end whose height is a rounding residue (0.3 - 0.1 - 0.2): BASIC grounds an end only when its Z is read as exactly 0
    'gnd-residue': ('G23', 'ideal', 'imp', '9'),
}


class _Args:
    def __init__(self, v):
        self.mininec_version = v


def _media(M, kind, P):
    if kind is None:
        return None
    if kind == 'ideal':
        return 'ideal'
    if kind == 'one':
        return [M.Medium(P['eps'][0], P['sig'][0])]
    if kind == 'two-circular-radials':
        return [M.Medium(P['eps'][0], P['sig'][0], nradials=16, radius=P['rr'], coord=P['u'][0], boundary='circular'),
                M.Medium(P['eps'][1], P['sig'][1], height=P['h'][0])]
    if kind == 'two-circular':
        return [M.Medium(P['eps'][0], P['sig'][0], coord=P['u'][0], boundary='circular'),
                M.Medium(P['eps'][1], P['sig'][1], height=P['h'][0])]
    if kind == 'two-linear':
        return [M.Medium(P['eps'][0], P['sig'][0], coord=P['u'][0]),
                M.Medium(P['eps'][1], P['sig'][1], height=P['h'][0])]
    if kind == 'three-linear':
        return [M.Medium(P['eps'][0], P['sig'][0], coord=P['u'][0]),
                M.Medium(P['eps'][1], P['sig'][1], height=P['h'][0], coord=P['u'][1]),
                M.Medium(P['eps'][2], P['sig'][2], height=P['h'][1])]
    raise ValueError(kind)


def _build(M, case, P):
    gname, mk, lk, ver = CASES[case]
    med = _media(M, mk, P)
    if gname == 'W+A':
        # an arc whose first end only fuzzy-matches the end of an earlier wire (cos 90 deg = 6e-17)
        geo = [M.Wire(3, 0.0, 0.0, 0.0, 0.0, 0.0, 1.0, 0.001, tag=1), M.Arc(4, 1.0, 90.0, 180.0, 0.001, tag=2)]
        m = M.Mininec(P['f'], geo)
    else:
        m = catalogue.build(M, gname, f=P['f'], media=med if med is not None else 'ideal')
    n = len(m.pulses)
    sp = [0, n - 1] if n > 1 else [0]
    srcs = [M.Excitation(v) for v in P['V'][:len(sp)]]
    if case.startswith('src-mag-phase') and len(sp) > 1:
        srcs[1] = M.Excitation(P['mag'], P['ph'])
    for s_, k in zip(srcs, sp):
        m.register_source(s_, k)
    loads = []
    if lk == 'imp':
        ld = M.Impedance_Load(P['ZL'])
        m.register_load(ld, 0)
        m.register_load(ld, n - 1)
        loads.append(ld)
    elif lk == 'lap':
        ld = laplace_load(M, P['a'], P['b'])
        m.register_load(ld, 1)
        loads.append(ld)
    elif lk == 'skin':
        for w in m.geo:
            ld = M.Skin_Effect_Load(w, conductivity=P['sigma'], all_wires=True)
            m.register_load(ld, None, w.tag)
            loads.append(ld)
        m.fix_distributed_loads()
    elif lk == 'coat':
        for w in m.geo:
            ld = M.Insulation_Load(w, 0.005, 3.0, all_wires=True)      # concrete coating: the equivalent radius is written as a wire radius
            m.register_load(ld, None, w.tag)
            loads.append(ld)
        m.fix_distributed_loads()
    return m, srcs, sp, loads


def _sym_params():
    c = symx.ctx()
    P = dict(f=pos('f', 0.1, 1000))
    P['V'] = [SC.var('V0'), SC.var('V1')]
    for v in P['V']:
        c.assume(z3.Or(v.nr != 0, v.ni != 0))
        c.assume(z3.And(v.nr >= -1000, v.nr <= 1000, v.ni >= -1000, v.ni <= 1000))
    P['ZL'] = SC.var('ZL')
    P['mag'], P['ph'] = SR.var('mag'), SR.var('ph')
    c.assume(z3.And(P['mag'].n != 0, P['mag'].n >= -1000, P['mag'].n <= 1000, P['ph'].n >= -360, P['ph'].n <= 360))
    P['a'] = [SR.var('a0'), SR.var('a1'), SR.var('a2')]
    P['b'] = [SR.var('b0'), SR.var('b1'), SR.var('b2')]
    P['eps'] = [pos('eps%d' % i, 1, 80) for i in range(3)]
    P['sig'] = [pos('sig%d' % i, 1e-4, 10) for i in range(3)]
    P['h'] = [SR.var('h%d' % i) for i in range(2)]
    P['u'] = [pos('u%d' % i, 0.1, 1e4) for i in range(2)]
    P['rr'] = pos('rr', 1e-4, 0.1)
    P['sigma'] = pos('sigma', 1e3, 1e9)
    return P


def _conc_params(c):
    P = dict(f=c['f'], V=[complex(v) for v in c['V']], ZL=complex(c['ZL']), mag=float(c['mag']), ph=float(c['ph']), a=list(c['a']), b=list(c['b']),
             eps=list(c['eps']), sig=list(c['sig']), h=list(c['h']), u=list(c['u']), rr=c['rr'], sigma=c['sigma'])
    return P


def basic_input(ck, sh, mm, case):
    M = sh.mininec
    gname, mk, lk, ver = CASES[case]

    def fn():
        P = _sym_params()
        npf.state.angle_axioms = True
        tokens.SIGN_FORK[0] = False
        tokens.EXACT_CONV[0] = True
        try:
            with symx.object_arrays():
                m, srcs, sp, loads = _build(M, case, P)
                # the same model was written for another BASIC version just before (units of the Laplace coefficients differ)
                m.as_basic_input(_Args('12' if ver == '9' else '9'), azi=M.Angle(0.0, 10.0, 37), zen=M.Angle(0.0, 10.0, 10))
                text = m.as_basic_input(_Args(ver), azi=M.Angle(0.0, 10.0, 37), zen=M.Angle(0.0, 10.0, 10))
            try:
                model = Reader(text, num=tokens.read_field, version=ver).read()
                err = None
            except PromptError as e:
                model, err = None, str(e)
            loadz = []
            if lk in ('imp', 'skin', 'coat') and model is not None:
                for ld in loads:
                    for p in ld.pulses:
                        loadz.append((p.idx + 1, ld.impedance(P['f'], p)))
        finally:
            npf.state.angle_axioms = False
            tokens.SIGN_FORK[0] = True
            tokens.EXACT_CONV[0] = False
        flat = dict(f=P['f'], V=P['V'], ZL=P['ZL'], mag=P['mag'], ph=P['ph'], a=P['a'], b=P['b'], eps=P['eps'], sig=P['sig'], h=P['h'], u=P['u'],
                    rr=P['rr'], sigma=P['sigma'])
        return dict(inputs=flat, P=P, m=m, srcs=srcs, sp=sp, loads=loads, text=text, model=model, err=err, loadz=loadz)

    def goals(o):
        g = [('the reader consumes the whole input in MININEC-3 prompt order', z3.BoolVal(o['err'] is None))]
        if o['err'] is not None:
            return g
        rd, P, m = o['model'], o['P'], o['m']
        g.append(('frequency', eq_term(rd['f'], P['f'])))
        g.append(('environment', z3.BoolVal(rd['ground'] == (m.media is not None))))
        # media
        if m.media is not None and not (len(m.media) == 1 and m.media[0].is_ideal):
            ok = [z3.BoolVal(len(rd['media']) == len(m.media))]
            for r_, md in zip(rd['media'], m.media):
                ok += [eq_term(r_['eps'], md.permittivity), eq_term(r_['sigma'], md.conductivity)]
                if md.prev is not None:
                    ok.append(eq_term(r_.get('height', 0.0), md.height))
                if md.next is not None:
                    ok.append(eq_term(r_.get('coord', 0.0), md.coord))
                    ok.append(z3.BoolVal(r_['boundary'] == md.boundary))
                if md.nradials:
                    ok += [z3.BoolVal(r_.get('nradials') == md.nradials), eq_term(r_.get('radius', 0.0), md.radius)]
            g.append(('media: constants, heights, boundary, radials, interfaces', z3.And(*ok)))
        elif m.media is not None:
            g.append(('perfect ground is written as 0 media', z3.BoolVal(len(rd['media']) == 0)))
        # sources: pulse number, magnitude and phase IN DEGREES rebuild the voltage
        ok = [z3.BoolVal(len(rd['sources']) == len(o['srcs']))]
        for (pn, mag, ph), s_, k, v in zip(rd['sources'], o['srcs'], o['sp'], P['V']):
            ok.append(z3.BoolVal(pn == k + 1))
            ang = SR.lift(ph) * Fraction(math.pi) / 180       # degrees -> radians, exact rational of the double pi
            cs, sn = core._circle(ang)
            ok.append(eq_term(SC(SR.lift(mag) * cs, SR.lift(mag) * sn), s_.voltage))     # the voltage the solver uses
        g.append(('sources: pulse, magnitude, phase (degrees) give back the voltage', z3.And(*ok)))
        # loads
        gname_, mk_, lk_, ver_ = CASES[case]
        if lk_ in ('imp', 'skin', 'coat'):
            ok = [z3.BoolVal(len(rd['loads']) == len(o['loadz']))]
            for (kind, pn, R, X), (wpn, z) in zip(rd['loads'], o['loadz']):
                ok += [z3.BoolVal(kind == 'impedance' and pn == wpn), eq_term(SC(R, X), z)]
            g.append(('loads: pulse number, resistance, reactance', z3.And(*ok)))
        elif lk_ == 'lap':
            ld = o['loads'][0]
            ok = [z3.BoolVal(len(rd['loads']) == len(ld.pulses))]
            for (kind, pn, num_, den_), p in zip(rd['loads'], ld.pulses):
                ok.append(z3.BoolVal(kind == 'laplace' and pn == p.idx + 1 and len(num_) == len(ld.b)))
                ok += [eq_term(x, y) for x, y in zip(num_, ld.b)] + [eq_term(x, y) for x, y in zip(den_, ld.a)]
            g.append(('Laplace loads: order and coefficients in the units of the BASIC version', z3.And(*ok)))
        # wires: rebuilt through the public API give the same pulses (same numbering and feed geometry)
        g.append(('wires rebuild the same pulse numbering and positions', z3.BoolVal(_same_pulses(mm, rd, m))))
        return g

    def replay(c, gname_, out):
        return replay_basic(mm, case, _conc_params(c))
    prove_paths(ck, 'basic-%s' % case, fn, goals, replay, max_paths=64, sqrt_mode='uf-free' if lk in ('skin', 'coat') else 'fresh', expect_exc=(ExpectedRefusal,),
                timeout_ms=10000 if ck.tier == 'quick' else 60000)
    ck.bounds.setdefault('cases', []).append('%s: %s' % (case, CASES[case]))


def basic_pulse_points(wires, ground):
    """Pulse positions as BASIC MININEC creates them: wire ends are connected only when their
    coordinates are EXACTLY equal (single precision, as read from the input) or on the ground plane;
    per wire: [pulse at end 1 if connected to an earlier wire or grounded], interior joints,
    [pulse at end 2 if connected or grounded]."""
    f32 = lambda p: tuple(float(np.float32(float(x))) for x in p)
    seen = []
    pts = []
    for ns, e1, e2, r in wires:
        a, b = f32(e1), f32(e2)
        A, B = np.array([float(x) for x in e1]), np.array([float(x) for x in e2])
        c1 = (ground and a[2] == 0.0) or a in seen
        c2 = (ground and b[2] == 0.0) or b in seen
        if c1:
            pts.append(A)
        for i in range(1, ns):
            pts.append(A + (B - A) * i / ns)
        if c2:
            pts.append(B)
        seen += [a, b]
    return pts


def _same_pulses(mm, rd, m):
    """Same pulse count, numbering and pulse points (a) as BASIC MININEC would create them from the
    written wires (exact end matching) and (b) when the wires are rebuilt with the real package."""
    bp = basic_pulse_points(rd['wires'], rd['ground'])
    if len(bp) != len(m.pulses):
        return False
    for a, b in zip(bp, m.pulses):
        pb = np.array([float(x) for x in b.point])
        if not np.allclose(a, pb, rtol=1e-6, atol=1e-6):
            return False
    geo = [mm.Wire(ns, *[float(x) for x in e1], *[float(x) for x in e2], float(r)) for ns, e1, e2, r in rd['wires']]
    try:
        m2 = mm.Mininec(7.0, geo, media=[mm.Medium(0, 0)] if rd['ground'] else None)
    except ValueError:
        return False
    if len(m2.pulses) != len(m.pulses):
        return False
    for a, b in zip(m2.pulses, m.pulses):
        pb = np.array([float(x) for x in b.point])
        if not np.allclose(np.asarray(a.point, dtype=float), pb, rtol=1e-9, atol=1e-9):
            return False
    return True


def replay_basic(mm, case, P):
    gname, mk, lk, ver = CASES[case]
    m, srcs, sp, loads = _build(mm, case, P)
    m.as_basic_input(_Args('12' if ver == '9' else '9'), azi=mm.Angle(0.0, 10.0, 37), zen=mm.Angle(0.0, 10.0, 10))
    text = m.as_basic_input(_Args(ver), azi=mm.Angle(0.0, 10.0, 37), zen=mm.Angle(0.0, 10.0, 10))
    rd_args = dict(kind='basic', case=case)
    try:
        rd = Reader(text, version=ver).read()
    except PromptError as e:
        return ('C18:prompt-order:%s' % case, 'generated BASIC input is not in prompt order: %s' % e, rd_args)
    if not close(rd['f'], P['f'], 1e-11):
        return ('C18:frequency', 'frequency %r written as %r' % (P['f'], rd['f']), rd_args)
    for (pn, mag, ph), s_, k in zip(rd['sources'], srcs, sp):
        v = mag * np.exp(1j * math.radians(ph))
        if pn != k + 1 or abs(v - s_.voltage) > 2e-5 * abs(s_.voltage):
            return ('C18:source:phase-units' if abs(mag - abs(s_.voltage)) <= 1e-5 * abs(s_.voltage) else 'C18:source',
                    'source on pulse %d with voltage %r is written as "%d, %g, %g" which BASIC MININEC reads as %r'
                    % (k + 1, s_.voltage, pn, mag, ph, v), rd_args)
    if lk in ('imp', 'skin', 'coat'):
        want = [(p.idx + 1, ld.impedance(P['f'], p)) for ld in loads for p in ld.pulses]
        if len(want) != len(rd['loads']):
            return ('C18:loads:count', '%d load lines for %d loaded pulses' % (len(rd['loads']), len(want)), rd_args)
        for (kind, pn, R, X), (wpn, z) in zip(rd['loads'], want):
            if kind != 'impedance' or pn != wpn or abs(complex(R, X) - z) > 2e-5 * abs(z) + 1e-12:
                return ('C18:loads:value', 'load on pulse %d = %r written as %s' % (wpn, z, (kind, pn, R, X)), rd_args)
    elif lk == 'lap':
        ld = loads[0]
        for (kind, pn, num_, den_), p in zip(rd['loads'], ld.pulses):
            ok = kind == 'laplace' and pn == p.idx + 1 and len(num_) == len(ld.b)
            ok = ok and all(abs(x - y) <= 2e-5 * abs(y) + 1e-300 for x, y in zip(num_, ld.b))
            ok = ok and all(abs(x - y) <= 2e-5 * abs(y) + 1e-300 for x, y in zip(den_, ld.a))
            if not ok:
                return ('C18:laplace', 'Laplace load b=%s a=%s written as %s / %s (version %s)' % (list(ld.b), list(ld.a), num_, den_, ver), rd_args)
    if m.media is not None and not (len(m.media) == 1 and m.media[0].is_ideal):
        if len(rd['media']) != len(m.media):
            return ('C18:media:count', '%d media written for %d' % (len(rd['media']), len(m.media)), rd_args)
        for r_, md in zip(rd['media'], m.media):
            ok = close(r_['eps'], md.permittivity, 1e-5) and close(r_['sigma'], md.conductivity, 1e-5)
            if md.prev is not None:
                ok = ok and close(r_.get('height', 0.0), md.height, 1e-5, 1e-12)
            if md.next is not None:
                ok = ok and close(r_.get('coord', 0.0), md.coord, 1e-5) and r_['boundary'] == md.boundary
            if md.nradials:
                ok = ok and r_.get('nradials') == md.nradials and close(r_.get('radius', 0.0), md.radius, 1e-5)
            if not ok:
                return ('C18:media:value', 'medium %r written as %r' % (vars(md), r_), rd_args)
    if not _same_pulses(mm, rd, m):
        return ('C18:wires', 'wires read back from the BASIC input give other pulses', rd_args)
    return None


def main(args):
    ck = Check('C18', args)
    ck.shadow_stats = symx.load().stats
    names = ['free-imp', 'gnd-ideal', 'lap-v9', 'lap-v12', 'media2', 'taper', 'arc', 'wire+arc-fuzzy', 'taper-skin', 'taper-coat', 'media2-circ-norad', 'media2-linear', 'src-mag-phase', 'src-mag-phase-gnd', 'gnd-residue'] if ck.tier == 'quick' else list(CASES)
    run_parallel(ck, 'checks.c18', [('basic_input', (n,)) for n in names])
    ck.assumptions += ['%g/%.12g conversions read back exactly in this check (their 6-digit precision is what "to the precision of the '
                       'printed parameters" allows; the check is about units, order and content)',
                       'np.angle(V) = A with V = |V|(cos A + j sin A) (defining relation), cos/sin as circle pairs',
                       'prompt order: as quoted in the comments of as_basic_input and as accepted for all 48 test/*.mini files '
                       'by the reference reader',
                       'geometry: catalogue members (coordinates concrete, written with %.15g), rebuilt through the public API']
    ck.stubs += ['tokens for printf conversions (exact)', 'np.angle -> uninterpreted + defining relation']
    ck.outside += ['behaviour of the BASIC program itself', 'far/near-field request lines beyond their prompt order']
    return ck.finish('Real as_basic_input writers on symbolic voltages/loads/frequency/media; reference reader in MININEC-3 prompt '
                     'order; equality of the rebuilt quantities with the model decided by z3 for all values.')


if __name__ == '__main__':
    run_check('C18', main)
