"""C06 -- results do not depend on how the same conductor structure is described.

A catalogue structure D and a re-description D' (wires listed in another order and/or with their
ends swapped) are filled over ONE table of unknown integrals.  From pulse geometry alone (points and
far ends; no use of the code's sign/connection bookkeeping) the reference computes the integer
matrix C that expresses every pulse of D' in the pulses of D: a pulse is  e[S0 -> v] - e[S1 -> v]
(half-triangle on its first segment flowing into the vertex v minus the one on its second segment);
for two-wire junctions and interior pulses C is a signed permutation, at a junction of three or
more wires the two descriptions choose different pairs of wires and C is a change of basis of the
same current space.  z3 decides for ALL values of the unknown integrals / voltages / currents:

 (a)  Z' = C Z C^T  entry by entry (linear forms over the atoms);
 (b)  a source V / load Z_L on a pulse both descriptions have (signed-permutation row) appears with
      the orientation sign in the right-hand side and unchanged on the diagonal;
 (c)  the far field of D' with currents I' equals that of D with I = C^T I'.

(a)-(b) give equal feed impedances and currents "up to the sign implied by the direction".  The
near field of D' with I' equals that of D with C^T I' (numerical integrals concrete, currents symbolic).  A structural difference is replayed by
the property's own sentence: both descriptions are solved on the real code for a feed on every
common pulse and compared within 5e-4 (scaled with the condition number).
 (d)  splitting: a straight wire entered as two connected collinear pieces that keep the segment boundaries (second piece in place,
      listed last, or entered towards the first) gives the same number of unknowns and Z' = C Z C^T for every entry except the self
      term of the pulse at the new junction (the code integrates touching segments of ONE wire with the exact kernel and of two wires
      with the reduced kernel: two different numerical integrals for the same mathematical one); that entry is settled by the
      property's own sentence on the real code.
"""
import itertools
import math
from fractions import Fraction
import numpy as np
import z3

from .common import Check, run_check, prove_paths, run_parallel
import symx
from symx import SR, SC, core, psistub
from refmodels import catalogue, farfield
from . import psi_common as pc
from .c10 import _box_currents, _set_currents

DIRS = [(20.0, 15.0), (70.0, 200.0), (90.0, 0.0)]


def variant(M, gname, nmul, perm, rev, f=catalogue.F0):
    objs, gnd = catalogue.spec(gname, nmul=nmul)
    geo = []
    for k in perm:
        o = objs[k]
        if o[0] != 'w':
            raise symx.HarnessError('C06 variants: wires only')
        p1, p2 = (o[3], o[2]) if rev[k] else (o[2], o[3])
        w = M.Wire(o[1], *p1, *p2, o[4])
        if len(o) > 5:
            # a tapered wire keeps its short segments at the same physical end when it is entered the other way round
            w.segtype = (3 - o[5]) if (rev[k] and o[5] in (1, 2)) else o[5]
        geo.append(w)
    return M.Mininec(f, geo, media=[M.Medium(0, 0)] if gnd else None)


def build_objs(M, objs, gnd, f=catalogue.F0):
    geo = []
    for o in objs:
        w = M.Wire(o[1], *o[2], *o[3], o[4])
        if len(o) > 5:
            w.segtype = o[5]
        geo.append(w)
    return M.Mininec(f, geo, media=[M.Medium(0, 0)] if gnd else None)


def split_objs(objs, k, j, where):
    """wire k (n equal segments) entered as two connected collinear wires of j and n - j segments of the same length; the second piece
    takes the place after the first ('inplace') or comes last ('last'), or the two pieces are entered towards each other ('facing')."""
    o = objs[k]
    n = o[1]
    p, q = np.array(o[2], dtype=float), np.array(o[3], dtype=float)
    mid = tuple(float(v) for v in (p + (q - p) * (j / n)))
    a = ('w', j, o[2], mid, o[4])
    b = ('w', n - j, mid, o[3], o[4]) if where != 'facing' else ('w', n - j, o[3], mid, o[4])
    out = list(objs[:k]) + [a] + ([b] if where != 'last' else []) + list(objs[k + 1:]) + ([b] if where == 'last' else [])
    return out


SPLITS = [('G1', 1, 0, 3, 'inplace'), ('G7', 1, 0, 2, 'inplace'), ('G2', 2, 0, 2, 'last'), ('G9', 2, 1, 4, 'facing'), ('G8', 2, 0, 3, 'inplace'),
          ('G2', 2, 1, 1, 'inplace'), ('G5', 2, 2, 2, 'facing'), ('G10', 2, 2, 3, 'last')]


def split(ck, sh, mm, gname, nmul, k, j, where):
    """Splitting a straight wire into two connected collinear pieces that keep the segment boundaries.  Both descriptions are filled over
    one atom table.  The code integrates a pair of segments of the SAME wire that touch with the exact kernel (elliptic integral) and a
    touching pair on two wires with the reduced one: such entries are different linear forms over the atoms by construction, the solver
    reports them, and they are settled by the property's own sentence on the real code (currents, impedance, near and far field within
    5e-4); every other entry is decided by the solver alone."""
    M = sh.mininec
    T = psistub.AtomTable()
    pc.install(M, T)
    objs, gnd = catalogue.spec(gname, nmul=nmul)
    sobjs = split_objs(objs, k, j, where)
    vname = 'split-%s-x%d-wire%d-at%d-%s' % (gname, nmul, k + 1, j, where)
    vn = 'wire %d entered as two pieces of %d and %d segments (%s)' % (k + 1, j, objs[k][1] - j, where)

    def fn():
        c = symx.ctx()
        m0 = pc.fill(M, build_objs(M, objs, gnd))
        m1 = pc.fill(M, build_objs(M, sobjs, gnd))
        C = basis_change(m0, m1)
        if C is None:
            return dict(inputs={}, C=None)
        for a in pc.additivity_axioms(T):
            c.axiom(a)
        for b in T.box(1.0):
            c.assume(b)
        n1 = len(m1.pulses)
        ents = []
        for jj in range(n1):
            for l in range(n1):
                acc = SC(0.0, 0.0)
                for i in np.nonzero(C[jj])[0]:
                    for kk in np.nonzero(C[l])[0]:
                        acc = acc + SC.lift(m0.Z[i][kk]) * int(C[jj][i] * C[l][kk])
                ents.append((jj, l, m1.Z[jj][l], acc))
        return dict(inputs={}, C=C, ents=ents, n0=len(m0.pulses), n1=n1)

    def goals(o):
        if o['C'] is None:
            return [("the pulses of the split description span the same current space", z3.BoolVal(False))]
        g = [('same number of unknowns', z3.BoolVal(o['n0'] == o['n1']))]
        return g + [("Z'[%d][%d] = (C Z C^T)[%d][%d]" % (jj, l, jj, l), pc.close_goal(a, b)) for jj, l, a, b in o['ents']]

    def replay(conc, gn, out):
        return replay_sentence(mm, gname, nmul, None, None, builders=(lambda: build_objs(mm, objs, gnd), lambda: build_objs(mm, sobjs, gnd)), vn=vn)
    prove_paths(ck, vname, fn, goals, replay, max_paths=2, timeout_ms=20000 if ck.tier == 'quick' else 120000, twin_timeout_ms=20000)
    ck.bounds.setdefault('split', []).append('%s x%d: %s' % (gname, nmul, vn))


def _key(x):
    return tuple(int(round(float(c) * 1e7)) for c in x)


def half_vectors(m):
    """pulse -> {(segment key, vertex key): +-1}"""
    out = []
    for p in m.pulses:
        pt, e0, e1 = (np.asarray(v, dtype=float) for v in (p.point, p.ends[0], p.ends[1]))
        v = {}
        v[(_key((pt + e0) / 2), _key(pt))] = 1
        k1 = (_key((pt + e1) / 2), _key(pt))
        v[k1] = v.get(k1, 0) - 1
        out.append(v)
    return out


def basis_change(m0, m1):
    """C with  pulse_j(D') = sum_i C[j][i] pulse_i(D); None if D' is not in the span (different structure)."""
    h0, h1 = half_vectors(m0), half_vectors(m1)
    keys = sorted({k for v in h0 + h1 for k in v})
    ix = {k: i for i, k in enumerate(keys)}
    A = np.zeros((len(keys), len(h0)))
    for i, v in enumerate(h0):
        for k, c in v.items():
            A[ix[k], i] = c
    C = np.zeros((len(h1), len(h0)), dtype=int)
    for j, v in enumerate(h1):
        b = np.zeros(len(keys))
        for k, c in v.items():
            b[ix[k]] = c
        x, res, rk, sv = np.linalg.lstsq(A, b, rcond=None)
        xi = np.rint(x)
        if np.abs(A @ xi - b).max() > 1e-9:
            return None
        C[j] = xi.astype(int)
    return C


def simple_rows(C):
    """[(j, i, sign)]: pulses of D' that are +-one pulse of D, and that pulse occurs in no other row."""
    out = []
    for j in range(C.shape[0]):
        nz = np.nonzero(C[j])[0]
        if len(nz) == 1 and abs(C[j][nz[0]]) == 1 and np.count_nonzero(C[:, nz[0]]) == 1:
            out.append((j, int(nz[0]), int(C[j][nz[0]])))
    return out


def variants_of(gname, tier, part):
    objs, gnd = catalogue.spec(gname)
    nw = len(objs)
    allv = [(p, r) for p in itertools.permutations(range(nw)) for r in itertools.product((0, 1), repeat=nw)
            if not (list(p) == list(range(nw)) and not any(r))]
    if tier == 'quick' and len(allv) > 8:
        allv = allv[part::6][:8]           # a fixed spread of the 47 variants
    return allv


def matrix(ck, sh, mm, gname, nmul, chunk, nchunks):
    M = sh.mininec
    T = psistub.AtomTable()
    pc.install(M, T)
    objs, gnd = catalogue.spec(gname)
    nw = len(objs)
    vs = variants_of(gname, ck.tier, 0)[chunk::nchunks]
    for perm, rev in vs:
        vname = '%s-x%d-order%s-rev%s' % (gname, nmul, ''.join(map(str, perm)), ''.join(map(str, rev)))

        def fn(perm=perm, rev=rev):
            c = symx.ctx()
            m0 = pc.fill(M, variant(M, gname, nmul, list(range(nw)), [0] * nw))
            m1 = pc.fill(M, variant(M, gname, nmul, perm, rev))
            C = basis_change(m0, m1)
            if C is None:
                return dict(inputs={}, C=None)
            for a in pc.additivity_axioms(T):
                c.axiom(a)
            for b in T.box(1.0):
                c.assume(b)
            n0, n1 = len(m0.pulses), len(m1.pulses)
            ents = []
            for j in range(n1):
                for l in range(n1):
                    acc = SC(0.0, 0.0)
                    for i in np.nonzero(C[j])[0]:
                        for k in np.nonzero(C[l])[0]:
                            acc = acc + SC.lift(m0.Z[i][k]) * int(C[j][i] * C[l][k])
                    ents.append((j, l, m1.Z[j][l], acc))
            return dict(inputs={}, C=C, ents=ents)

        def goals(o):
            if o['C'] is None:
                return [("the pulses of D' span the same current space as those of D", z3.BoolVal(False))]
            return [("Z'[%d][%d] = (C Z C^T)[%d][%d]" % (j, l, j, l), pc.close_goal(a, b)) for j, l, a, b in o['ents']]

        def replay(conc, gn, out, perm=perm, rev=rev):
            return replay_sentence(mm, gname, nmul, perm, rev)
        prove_paths(ck, 'matrix-' + vname, fn, goals, replay, max_paths=2,
                    timeout_ms=20000 if ck.tier == 'quick' else 120000, twin_timeout_ms=20000)
    ck.bounds.setdefault('matrix', []).append('%s x%d: variants %s' % (gname, nmul, [(''.join(map(str, p)), ''.join(map(str, r))) for p, r in vs]))


def replay_sentence(mm, gname, nmul, perm, rev, builders=None, vn=None):
    objs, gnd = catalogue.spec(gname)
    nw = len(objs)
    if builders is None:
        builders = (lambda: variant(mm, gname, nmul, list(range(nw)), [0] * nw), lambda: variant(mm, gname, nmul, perm, rev))
        vn = 'order %s, reversed %s' % (list(perm), [k for k in range(nw) if rev[k]])
    b0, b1 = builders
    base = b0()
    other = b1()
    C = basis_change(base, other)
    zen, azi = mm.Angle(10.0, 20.0, 5 if gnd else 9), mm.Angle(0.0, 45.0, 8)
    if C is None:
        # the pulse geometry of the two descriptions differs: evaluate the property's sentence on what is
        # independent of pulse orientation -- feed impedance and gain for a feed at every point both have
        pts0 = {}
        for p in base.pulses:
            pts0.setdefault(_key(p.point), []).append(p.idx)
        for q in other.pulses:
            ii = pts0.get(_key(q.point), [])
            if len(ii) != 1 or sum(1 for x in other.pulses if _key(x.point) == _key(q.point)) != 1:
                continue
            m0 = b0()
            m1 = b1()
            m0.register_source(mm.Excitation(1 + 0.5j), ii[0])
            m1.register_source(mm.Excitation(1 + 0.5j), q.idx)
            m0.compute()
            m1.compute()
            cond = np.linalg.cond(np.asarray(m0.Z, dtype=complex))
            if cond > 1e5:
                continue
            tol = 5e-4 * max(1.0, cond / 1e3)
            z0, z1 = m0.sources[0].impedance, m1.sources[0].impedance
            if abs(z0 - z1) > tol * abs(z0):
                return ('C06:impedance:%s' % ('ground' if gnd else 'free'),
                        '%s (x%d; %s), feed at %s: impedance %r vs %r (the two descriptions do not even have the same pulse geometry)'
                        % (gname, nmul, vn, [round(float(c), 4) for c in q.point], z0, z1),
                        dict(kind='sentence', geometry=gname, variant=vn))
        return None
    for j, i, s in simple_rows(C):
        m0 = b0()
        m1 = b1()
        V = 1 + 0.5j
        m0.register_source(mm.Excitation(V), i)
        m1.register_source(mm.Excitation(V * s), j)
        m0.compute()
        m1.compute()
        cond = np.linalg.cond(np.asarray(m0.Z, dtype=complex))
        if cond > 1e5:
            continue
        tol = 5e-4 * max(1.0, cond / 1e3)
        i0 = np.asarray(m0.current)
        i1 = C.T @ np.asarray(m1.current)
        sc = np.abs(i0).max()
        if np.abs(i0 - i1).max() > tol * sc:
            k = int(np.argmax(np.abs(i0 - i1)))
            return ('C06:currents:%s' % ('ground' if gnd else 'free'),
                    '%s (x%d; %s), feed on pulse %d: current of pulse %d is %r, in the other description %r (tolerance %.1e, cond %.0f)'
                    % (gname, nmul, vn, i + 1, k + 1, complex(i0[k]), complex(i1[k]), tol, cond),
                    dict(kind='sentence', geometry=gname, variant=vn))
        z0, z1 = m0.sources[0].impedance, m1.sources[0].impedance
        if abs(z0 - z1) > tol * abs(z0):
            return ('C06:impedance:%s' % ('ground' if gnd else 'free'),
                    '%s (x%d; %s), feed on pulse %d: impedance %r vs %r' % (gname, nmul, vn, i + 1, z0, z1),
                    dict(kind='sentence', geometry=gname, variant=vn))
        xnf = np.array([1.3, -0.8, 2.5])
        nf = []
        for m in (m0, m1):
            m.compute_near_field(xnf, np.ones(3), np.ones(3, dtype=int))
            nf.append(np.concatenate([m.e_field[0], m.h_field[0]]))
        if np.abs(nf[0][:3] - nf[1][:3]).max() > tol * np.abs(nf[0][:3]).max() or np.abs(nf[0][3:] - nf[1][3:]).max() > tol * np.abs(nf[0][3:]).max():
            return ('C06:near-field:%s' % ('ground' if gnd else 'free'),
                    '%s (x%d; %s), feed on pulse %d: near field at %s is E %s / %s in the two descriptions'
                    % (gname, nmul, vn, i + 1, [float(v) for v in xnf], np.array2string(nf[0][:3], precision=4), np.array2string(nf[1][:3], precision=4)),
                    dict(kind='sentence', geometry=gname, variant=vn))
        m0.compute_far_field(zen, azi)
        m1.compute_far_field(zen, azi)
        e0 = np.stack([m0.far_field.e_theta, m0.far_field.e_phi])
        e1 = np.stack([m1.far_field.e_theta, m1.far_field.e_phi])
        if np.abs(e0 - e1).max() > tol * np.abs(e0).max():
            return ('C06:far-field:%s' % ('ground' if gnd else 'free'),
                    '%s (x%d; %s), feed on pulse %d: far field differs by %.3g of its maximum'
                    % (gname, nmul, vn, i + 1, np.abs(e0 - e1).max() / np.abs(e0).max()),
                    dict(kind='sentence', geometry=gname, variant=vn))
    return None


def rhs_far(ck, sh, mm, gname, chunk, nchunks):
    """(b) and (c) on every variant of this chunk."""
    M = sh.mininec
    objs, gnd = catalogue.spec(gname)
    nw = len(objs)
    vs = variants_of(gname, ck.tier, 1)[chunk::nchunks]
    for perm, rev in vs:
        vname = '%s-order%s-rev%s' % (gname, ''.join(map(str, perm)), ''.join(map(str, rev)))

        def fn(perm=perm, rev=rev):
            m0 = variant(M, gname, 1, list(range(nw)), [0] * nw)
            m1 = variant(M, gname, 1, perm, rev)
            C = basis_change(m0, m1)
            if C is None:
                return dict(inputs={}, C=None)
            n0, n1 = len(m0.pulses), len(m1.pulses)
            V = [SC.var('V%d' % k) for k in range(n1)]
            ZL = [SC.var('ZL%d' % k) for k in range(n1)]
            simple = simple_rows(C)
            I1 = _box_currents(n1, 1.0)
            I0 = []
            for i in range(n0):
                acc = SC(0.0, 0.0)
                for j in np.nonzero(C[:, i])[0]:
                    acc = acc + I1[j] * int(C[j][i])
                I0.append(acc)
            with symx.object_arrays():
                for j, i, s in simple:
                    m0.register_source(M.Excitation(V[j]), i)
                    m1.register_source(M.Excitation(V[j] * s), j)
                    m0.register_load(M.Impedance_Load(ZL[j]), i)
                    m1.register_load(M.Impedance_Load(ZL[j]), j)
                for m in (m0, m1):
                    nn = len(m.pulses)
                    m.Z = np.zeros((nn, nn), dtype=object)
                    m.Z[...] = 0.0
                    m.compute_rhs()
                    m.compute_impedance_matrix_loads()
                _set_currents(m0, I0)
                _set_currents(m1, I1)
                m0.power = m1.power = 1.0
                ffs = []
                for th, ph in DIRS[:2] if ck.tier == 'quick' else DIRS:
                    if gnd and th >= 90:
                        continue
                    m0.compute_far_field(M.Angle(th, 10.0, 1), M.Angle(ph, 10.0, 1))
                    f0 = m0.far_field
                    m1.compute_far_field(M.Angle(th, 10.0, 1), M.Angle(ph, 10.0, 1))
                    at, ap = farfield.coefficients(m1, th, ph)
                    ffs.append((th, ph, f0, m1.far_field, sum(abs(a) for a in at + ap) * 3))
            return dict(inputs=dict(I=I1, V=V, ZL=ZL), C=C, m0=m0, m1=m1, simple=simple, ffs=ffs)

        def goals(o):
            if o['C'] is None:
                return [("the pulses of D' span the same current space as those of D", z3.BoolVal(False))]
            m0, m1 = o['m0'], o['m1']
            conj = []
            for j, i, s in o['simple']:
                conj.append(core.eq_term(m1.rhs[j], SC.lift(m0.rhs[i]) * s))
                conj.append(core.eq_term(m1.Z[j][j], m0.Z[i][i]))
            g = [('sources and loads on common pulses: rhs with orientation sign, same diagonal', z3.And(*conj) if conj else z3.BoolVal(True))]
            for th, ph, f0, f1, bound in o['ffs']:
                tol = core.RV(Fraction(bound) * Fraction(1, 10 ** 9) + Fraction(1, 10 ** 30))
                for nm, a, b in (('E_theta', f0.e_theta[0][0], f1.e_theta[0][0]), ('E_phi', f0.e_phi[0][0], f1.e_phi[0][0])):
                    d = SC.lift(a) - SC.lift(b)
                    g.append(("%s(%g,%g) of D' with I' = that of D with C^T I'" % (nm, th, ph),
                              z3.And(d.re.n <= tol * d.re.den, d.re.n >= -tol * d.re.den, d.im.n <= tol * d.im.den, d.im.n >= -tol * d.im.den)))
            return g

        def replay(conc, gn, out, perm=perm, rev=rev):
            return replay_sentence(mm, gname, 1, perm, rev)
        prove_paths(ck, 'rhs-far-' + vname, fn, goals, replay, max_paths=16, fork_policy='assume', twin_timeout_ms=1000, prefer_true=('compute_far_field',))


def near_rel(ck, sh, mm, gname):
    """Near field of D' (wires reversed in every combination) with currents I' = near field of D with C^T I', all six
    components, for all currents (the numerical integrals are concrete here: linear forms in the currents, LRA)."""
    from symx import poly
    M = sh.mininec
    objs, gnd = catalogue.spec(gname)
    nw = len(objs)
    x = np.array([1.3, -0.8, 2.5])
    for rev in itertools.product((0, 1), repeat=nw):
        if not any(rev):
            continue
        perm = tuple(range(nw))

        def fn(rev=rev):
            m0 = variant(M, gname, 1, list(range(nw)), [0] * nw)
            m1 = variant(M, gname, 1, perm, rev)
            C = basis_change(m0, m1)
            if C is None:
                return dict(inputs={}, C=None)
            n0, n1 = len(m0.pulses), len(m1.pulses)
            I1 = _box_currents(n1, 1.0)
            I0 = []
            for i in range(n0):
                acc = SC(0.0, 0.0)
                for j in np.nonzero(C[:, i])[0]:
                    acc = acc + I1[j] * int(C[j][i])
                I0.append(acc)
            _set_currents(m0, I0)
            _set_currents(m1, I1)
            m0.power = m1.power = 1.0
            nfs = []
            with symx.object_arrays():
                for m in (m0, m1):
                    m.compute_near_field(x, np.ones(3), np.ones(3, dtype=int))
                    nfs.append(list(m.e_field[0]) + list(m.h_field[0]))
            return dict(inputs=dict(I=I1), C=C, nfs=nfs)

        def goals(o):
            if o['C'] is None:
                return [("the pulses of D' span the same current space as those of D", z3.BoolVal(False))]
            g = []
            for k_, (a, b) in enumerate(zip(o['nfs'][0], o['nfs'][1])):
                a, b = SC.lift(a), SC.lift(b)
                d = a - b
                if d.dr is not None:
                    raise symx.HarnessError('near field with a denominator')
                tot = Fraction(0)
                for part in (a.nr, a.ni):
                    tot += sum(abs(v) for v in poly.expand(part).values())
                tol = core.RV(tot * Fraction(1, 10 ** 8) + Fraction(1, 10 ** 30))
                g.append(("near field %s_%s of D' with I' = that of D with C^T I'" % ('EH'[k_ // 3], 'xyz'[k_ % 3]),
                          z3.And(d.nr <= tol, d.nr >= -tol, d.ni <= tol, d.ni >= -tol)))
            return g

        def replay(conc, gn, out, rev=rev):
            return replay_sentence(mm, gname, 1, perm, rev)
        prove_paths(ck, 'near-%s-rev%s' % (gname, ''.join(map(str, rev))), fn, goals, replay, max_paths=2)


def main(args):
    ck = Check('C06', args)
    ck.shadow_stats = symx.load().stats
    parts = []
    if ck.tier == 'quick':
        for g, nch in (('G2', 2), ('G5', 4), ('G9', 2), ('G10', 4), ('G16', 2), ('G8', 1), ('G21', 2), ('G22', 2), ('G19', 2)):
            parts += [('matrix', (g, 1, c, nch)) for c in range(nch)]
        for g in ('G2', 'G6', 'G9'):
            parts += [('rhs_far', (g, c, 2)) for c in range(2)]
        parts += [('near_rel', (g,)) for g in ('G2', 'G3')]
        parts += [('split', sp) for sp in SPLITS[:5]]
    else:
        for g, nch in (('G2', 2), ('G4', 2), ('G5', 12), ('G6', 12), ('G9', 2), ('G10', 12), ('G16', 2), ('G8', 1), ('G21', 2), ('G22', 2), ('G19', 2), ('G20', 2)):
            parts += [('matrix', (g, 2 if nch <= 2 else 1, c, nch)) for c in range(nch)]
        for g, nch in (('G2', 1), ('G5', 6), ('G6', 6), ('G9', 1), ('G10', 6), ('G16', 1)):
            parts += [('rhs_far', (g, c, nch)) for c in range(nch)]
        parts += [('near_rel', (g,)) for g in ('G2', 'G3', 'G4', 'G5', 'G8', 'G9')]
        parts += [('split', sp) for sp in SPLITS]
    run_parallel(ck, 'checks.c06', parts)
    ck.assumptions += [
        'structures: catalogue members G2/G4 (two wires, different radii and segment lengths), G5 (T), G6 (star on a first end), G8/G9/G10/G16 '
        '(ground); every order and every choice of reversed wires (quick: a fixed spread of 8 of the 47 variants of three-wire members)',
        'every numerical integral is an unknown shared by both descriptions; additivity of integrals over halves',
        'domain of the property: unjoined wires at least two segments apart, at most one wire per ground point (the members respect it)']
    ck.stubs += ['Mininec.fast_quad -> psi-atom stub shared by both descriptions']
    ck.outside += ['in the splitting clause the self term of the pulse at the new junction (exact against reduced kernel: numerical; settled per case by the sentence on the real code)',
                   'near-field clause: decided per half-segment under C04', 'LAPACK rounding / the 5e-4 clause itself (replays only)']
    return ck.finish("Two descriptions of one structure filled over one table of unknown integrals; Z' = C Z C^T, rhs/load/far-field "
                     'relations decided by z3 for all values; C from pulse geometry only.')


if __name__ == '__main__':
    run_check('C06', main)
