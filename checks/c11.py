"""C11 -- real ground changes only the far field, consistently with its limits.

 (i)   non-interference: with symbolic permittivity / conductivity / height / boundary the matrix fill
       (over unknown integrals), the right-hand side and the load weights are the very same terms as over
       ideal ground -- decided by asking z3 for media constants that give a different entry;
 (ii)  limits: the real-ground branch of compute_far_field evaluated with surface impedance 0 equals the
       ideal-ground branch for ALL pulse currents (zenith < 90 degrees); and Medium.impedance satisfies
       |z|^4 (eps^2 + sigma^2/t^2) = 1, hence |z|^2 <= t / sigma -> 0 for all eps, sigma, f;
 (iii) splitting: for ALL positions u of the cut and all currents, a medium split at u into two media with
       identical constants and height gives the same field (the first medium only without radials; the
       second and third with and without radials on the first); linear and circular boundary;
 (iv)  a further medium with ARBITRARY constants whose boundary lies beyond every reflection point of
       the requested directions is never selected: same field for all its constants.

The medium constants of (iii)/(iv) are concrete (three different grounds), the boundary positions, the
constants of the unreachable medium and the pulse currents are solver variables; every comparison
`reflection point > boundary` forks, so each path is one assignment of pulses to media.
Outside: continuity of the Fresnel coefficients between the limit z = 0 and small z (rational in z and
sqrt(1 - z^2 sin^2) with denominators bounded away from 0 above grazing -- argued, not decided), grazing
incidence, splitting the first medium when radials are present (documented: radials extend to the next
boundary)."""
from fractions import Fraction
import math
import numpy as np
import z3

from .common import Check, run_check, prove_paths, run_parallel, close
import symx
from symx import SR, SC, core, psistub
from refmodels import catalogue, farfield
from . import psi_common as pc
from .c10 import _box_currents, _set_currents
from .c08 import pos

core.PREFER_TRUE_NONLINEAR_ONLY = True     # the -999 floor of the dBi table (quadratic in the currents) is assumed, medium lookups fork
GROUNDS = [(13.0, 0.005, 0.0), (4.0, 0.001, -0.3), (80.0, 4.0, -1.0)]
DIRS = [(30.0, 20.0), (70.0, 200.0), (85.0, 110.0)]


def media_list(M, spec, boundary='linear', radials=None):
    """spec: [(eps, sigma, height, coord or None)]"""
    out = []
    for k, (e, s, h, u) in enumerate(spec):
        kw = dict(boundary=boundary)
        if u is not None:
            kw['coord'] = u
        if k == 0 and radials:
            kw.update(nradials=radials[0], radius=radials[1])
        out.append(M.Medium(e, s, height=h, **kw))
    return out


def non_interference(ck, sh, mm, gname):
    M = sh.mininec
    T = psistub.AtomTable()
    pc.install(M, T)

    def fn():
        c = symx.ctx()
        e1, s1 = pos('eps1', 1, 80), pos('sigma1', 1e-4, 1e12)
        e2, s2 = pos('eps2', 1, 80), pos('sigma2', 1e-4, 1e12)
        h2 = SR.var('h2')
        u = pos('u', 0.01, 1e5)
        V, ZL = SC.var('V'), SC.var('ZL')
        c.assume(z3.And(h2.n >= -10, h2.n <= 0))
        mi = catalogue.build(M, gname)
        mr = catalogue.build(M, gname, media=media_list(M, [(e1, s1, 0.0, u), (e2, s2, h2, None)], 'circular', radials=(8, 0.001)))
        out = []
        for m in (mi, mr):
            with symx.object_arrays():
                m.register_source(M.Excitation(V), 0)
                m.register_load(M.Impedance_Load(ZL), 0)
                m.register_load(M.Impedance_Load(ZL), len(m.pulses) - 1)
                m.compute_impedance_matrix()
                m.compute_impedance_matrix_loads()
                m.compute_rhs()
        for b in T.box(1.0):
            c.assume(b)
        return dict(inputs=dict(eps1=e1, sigma1=s1, eps2=e2, sigma2=s2, h2=h2, u=u, V=V, ZL=ZL), mi=mi, mr=mr)

    def goals(o):
        mi, mr = o['mi'], o['mr']
        n = len(mi.pulses)
        conj = [core.eq_term(mi.Z[i][j], mr.Z[i][j]) for i in range(n) for j in range(n)]
        conj += [core.eq_term(mi.rhs[i], mr.rhs[i]) for i in range(n)]
        return [('matrix (with loads) and right-hand side do not depend on the ground constants', z3.And(*conj))]

    def replay(conc, gn, out):
        mi = catalogue.build(mm, gname)
        mr = catalogue.build(mm, gname, media=media_list(mm, [(conc['eps1'], conc['sigma1'], 0.0, conc['u']),
                                                              (conc['eps2'], conc['sigma2'], conc['h2'], None)], 'circular', radials=(8, 0.001)))
        V, ZL = complex(conc['V']), complex(conc['ZL'])
        if V == 0:
            V = 1 + 0.5j
        for m in (mi, mr):
            m.register_source(mm.Excitation(V), 0)
            m.register_load(mm.Impedance_Load(ZL), 0)
            m.register_load(mm.Impedance_Load(ZL), len(m.pulses) - 1)
            m.compute()
        ci, cr = np.asarray(mi.current), np.asarray(mr.current)
        if np.abs(ci - cr).max() <= 1e-12 * np.abs(ci).max():
            return None
        return ('C11:non-interference', '%s with a load %r on its grounded feed pulse: currents over real ground (eps %r, sigma %r) differ from those over '
                'ideal ground (feed impedance %r vs %r)' % (gname, ZL, conc['eps1'], conc['sigma1'], mr.sources[0].impedance, mi.sources[0].impedance),
                dict(kind='non-interference'))
    prove_paths(ck, 'non-interference-%s' % gname, fn, goals, replay, max_paths=8, timeout_ms=30000)


def impedance_rate(ck, sh, mm):
    M = sh.mininec

    def fn():
        e, s, f = pos('eps', 1, 80), pos('sigma', 1e-4, 1e12), pos('f', 0.1, 1000)
        with symx.object_arrays():
            z = M.Medium(e, s).impedance(f)
        t = f * Fraction(2 * np.pi) * Fraction(8.85e-6)
        return dict(inputs=dict(eps=e, sigma=s, f=f), z=SC.lift(z), e=e, s=s, t=t)

    def goals(o):
        z, e, s, t = o['z'], o['e'], o['s'], o['t']
        a2 = SR.lift(z.abs2())
        # |z|^4 (eps^2 + sigma^2/t^2) = 1   <=>   |z|^4 (eps^2 t^2 + sigma^2) = t^2
        return [('|z|^4 (eps^2 + sigma^2/t^2) = 1', core.eq_term(a2 * a2 * (e * e * t * t + s * s), t * t)),
                ('|z|^2 <= t / sigma', (a2 * s <= t).t)]

    def replay(conc, gn, out):
        z = mm.Medium(conc['eps'], conc['sigma']).impedance(conc['f'])
        t = 2 * np.pi * conc['f'] * 8.85e-6
        if abs(abs(z) ** 4 * (conc['eps'] ** 2 + conc['sigma'] ** 2 / t ** 2) - 1) < 1e-9:
            return None
        return ('C11:impedance', 'Medium(%r, %r).impedance(%r) = %r is not 1/sqrt(eps - j sigma/(2 pi f eps0))'
                % (conc['eps'], conc['sigma'], conc['f'], z), dict(kind='impedance'))
    prove_paths(ck, 'surface-impedance', fn, goals, replay, max_paths=8, timeout_ms=30000)


def _ff(m, M, th, ph):
    with symx.object_arrays():
        m.compute_far_field(M.Angle(th, 10.0, 1), M.Angle(ph, 10.0, 1))
    return m.far_field.e_theta[0][0], m.far_field.e_phi[0][0]


def _tol_goal(nm, a, b, bound):
    tol = core.RV(Fraction(bound) * Fraction(1, 10 ** 9) + Fraction(1, 10 ** 30))
    d = SC.lift(a) - SC.lift(b)
    return (nm, z3.And(d.re.n <= tol * d.re.den, d.re.n >= -tol * d.re.den, d.im.n <= tol * d.im.den, d.im.n >= -tol * d.im.den))


def zero_limit(ck, sh, mm, gname):
    """(ii) real-ground branch with z = 0 == ideal branch."""
    M = sh.mininec
    for th, ph in DIRS[:2] if ck.tier == 'quick' else DIRS:
        def fn(th=th, ph=ph):
            mi = catalogue.build(M, gname)
            med = M.Medium(13.0, 0.005)
            med.impedance = lambda f: 0j
            mr = catalogue.build(M, gname, media=[med])
            n = len(mi.pulses)
            I = _box_currents(n, 1.0)
            for m in (mi, mr):
                _set_currents(m, I)
                m.power = 1.0
            ei, er = _ff(mi, M, th, ph), _ff(mr, M, th, ph)
            at, ap = farfield.coefficients(mi, th, ph)
            return dict(inputs=dict(I=I), ei=ei, er=er, bound=sum(abs(a) for a in at + ap) * 2)

        def goals(o):
            return [_tol_goal('E_theta: real-ground formula at z=0 = ideal ground', o['er'][0], o['ei'][0], o['bound']),
                    _tol_goal('E_phi: real-ground formula at z=0 = ideal ground', o['er'][1], o['ei'][1], o['bound'])]

        def replay(conc, gn, out, th=th, ph=ph):
            I = np.array([complex(v) for v in conc['I']])
            mi = catalogue.build(mm, gname)
            mr = catalogue.build(mm, gname, media=[mm.Medium(13.0, 1e14)])
            res = []
            for m in (mi, mr):
                m.current, m.power = I, 1.0
                m.compute_far_field(mm.Angle(5.0, 10.0, 8), mm.Angle(0.0, 45.0, 8))
                res.append(np.stack([m.far_field.e_theta, m.far_field.e_phi]))
            if np.abs(res[0] - res[1]).max() <= 1e-3 * np.abs(res[0]).max():
                return None
            return ('C11:limit', '%s: pattern for conductivity 1e14 differs from the ideal-ground pattern by %.3g of its maximum'
                    % (gname, np.abs(res[0] - res[1]).max() / np.abs(res[0]).max()), dict(kind='limit'))
        prove_paths(ck, 'zero-limit-%s-%g-%g' % (gname, th, ph), fn, goals, replay, max_paths=8, fork_policy='assume', twin_timeout_ms=1000, prefer_true=('compute_far_field',))


SPLITS = {
    # name: (unsplit media, split media (cut at u), lower / upper limit of u); boundaries lie inside the range of the
    # reflection points of the catalogue members so that every medium is actually selected for some pulse
    'second-of-two': (lambda u: [GROUNDS[0] + (0.5,), GROUNDS[1] + (None,)],
                      lambda u: [GROUNDS[0] + (0.5,), GROUNDS[1] + (u,), GROUNDS[1] + (None,)], 0.5, 50.0),
    'first-of-two': (lambda u: [GROUNDS[0] + (1.5,), GROUNDS[1] + (None,)],
                     lambda u: [GROUNDS[0] + (u,), GROUNDS[0] + (1.5,), GROUNDS[1] + (None,)], 0.0, 1.5),
    'second-of-three': (lambda u: [GROUNDS[0] + (0.3,), GROUNDS[1] + (1.2,), GROUNDS[2] + (None,)],
                        lambda u: [GROUNDS[0] + (0.3,), GROUNDS[1] + (u,), GROUNDS[1] + (1.2,), GROUNDS[2] + (None,)], 0.3, 1.2),
    'third-of-three': (lambda u: [GROUNDS[0] + (0.3,), GROUNDS[1] + (1.2,), GROUNDS[2] + (None,)],
                       lambda u: [GROUNDS[0] + (0.3,), GROUNDS[1] + (1.2,), GROUNDS[2] + (u,), GROUNDS[2] + (None,)], 1.2, 50.0),
    'only-medium': (lambda u: [GROUNDS[1][:2] + (0.0, None)],
                    lambda u: [GROUNDS[1][:2] + (0.0, u), GROUNDS[1][:2] + (0.0, None)], 0.0, 50.0),
}


def split(ck, sh, mm, gname, sname, boundary, radials):
    M = sh.mininec
    base_f, split_f, lo, hi = SPLITS[sname]
    rad = (8, 0.001) if radials else None
    if rad and sname in ('first-of-two', 'only-medium'):
        return
    bnd = 'circular' if rad else boundary
    if bnd == 'linear' and lo == 0.0:
        lo = -2.0            # a linear boundary may lie at x = 0 or at negative x (a radius may not)
    for th, ph in DIRS[:2] if ck.tier == 'quick' else DIRS:
        def fn(th=th, ph=ph):
            c = symx.ctx()
            u = SR.var('u')
            c.assume(z3.And(u.n > core.RV(lo), u.n < core.RV(hi)))
            ma = catalogue.build(M, gname, media=media_list(M, base_f(u), bnd, rad))
            mb = catalogue.build(M, gname, media=media_list(M, split_f(u), bnd, rad))
            n = len(ma.pulses)
            I = _box_currents(n, 1.0)
            for m in (ma, mb):
                _set_currents(m, I)
                m.power = 1.0
            ea, eb = _ff(ma, M, th, ph), _ff(mb, M, th, ph)
            at, ap = farfield.coefficients(catalogue.build(M, gname), th, ph)
            return dict(inputs=dict(I=I, u=u), ea=ea, eb=eb, bound=sum(abs(a) for a in at + ap) * 4)

        def goals(o):
            return [_tol_goal('E_theta unchanged by the split', o['ea'][0], o['eb'][0], o['bound']),
                    _tol_goal('E_phi unchanged by the split', o['ea'][1], o['eb'][1], o['bound'])]

        def replay(conc, gn, out, th=th, ph=ph):
            return replay_media(mm, gname, base_f(conc['u']), split_f(conc['u']), bnd, rad, conc['I'],
                                'C11:split:%s:%s%s' % (sname, bnd, ':radials' if rad else ''),
                                'splitting (%s) at %r' % (sname, conc['u']))
        prove_paths(ck, 'split-%s-%s-%s%s-%g-%g' % (gname, sname, bnd, '-rad' if rad else '', th, ph), fn, goals, replay,
                    max_paths=64, twin_timeout_ms=2000, prefer_true=('compute_far_field',))


def replay_media(mm, gname, spec_a, spec_b, bnd, rad, I, key, what):
    I = np.array([complex(v) for v in I])
    res = []
    for spec in (spec_a, spec_b):
        m = catalogue.build(mm, gname, media=media_list(mm, spec, bnd, rad))
        m.current, m.power = I, 1.0
        m.compute_far_field(mm.Angle(5.0, 5.0, 17), mm.Angle(0.0, 30.0, 12))
        res.append(np.stack([m.far_field.e_theta, m.far_field.e_phi]))
    dev = np.abs(res[0] - res[1]).max() / np.abs(res[0]).max()
    if dev <= 1e-9:
        return None
    return (key, '%s: %s changes the pattern by %.3g of its maximum' % (gname, what, dev), dict(kind='media', geometry=gname))


def far_medium(ck, sh, mm, gname, boundary):
    """(iv)"""
    M = sh.mininec
    for th, ph in DIRS[:2] if ck.tier == 'quick' else DIRS:
        def fn(th=th, ph=ph):
            c = symx.ctx()
            e3, s3 = pos('eps3', 1, 80), pos('sigma3', 1e-4, 1e12)
            h3 = SR.var('h3')
            c.assume(z3.And(h3.n >= -10, h3.n <= 0))
            U = SR.var('U')
            # beyond every reflection point of this direction, computed here from the geometry alone: a point at height z is reflected at
            # the horizontal distance z tan(theta) in the direction of the azimuth (one part in 1e6 added)
            m0 = catalogue.build(mm, gname)
            pts = [np.asarray(p.point, dtype=float) for p in m0.pulses]          # the reflection is evaluated per pulse, at its point
            tt, cp, sp_ = math.tan(math.radians(th)), math.cos(math.radians(ph)), math.sin(math.radians(ph))
            refl = [(q[0] + q[2] * tt * cp, q[1] + q[2] * tt * sp_) for q in pts]
            lim = max((math.hypot(*r_) if boundary == 'circular' else r_[0]) for r_ in refl)
            lim = max(lim * (1 + 1e-6) + 1e-9, 0.5 * (1 + 1e-6))
            c.assume(z3.And(U.n >= core.RV(lim), U.n <= 1e5))
            ma = catalogue.build(M, gname, media=media_list(M, [GROUNDS[0] + (0.5,), GROUNDS[1] + (None,)], boundary))
            mb = catalogue.build(M, gname, media=media_list(M, [GROUNDS[0] + (0.5,), GROUNDS[1] + (U,), (e3, s3, h3, None)], boundary))
            n = len(ma.pulses)
            I = _box_currents(n, 1.0)
            for m in (ma, mb):
                _set_currents(m, I)
                m.power = 1.0
            ea, eb = _ff(ma, M, th, ph), _ff(mb, M, th, ph)
            at, ap = farfield.coefficients(catalogue.build(M, gname), th, ph)
            return dict(inputs=dict(I=I, U=U, eps3=e3, sigma3=s3, h3=h3), ea=ea, eb=eb, bound=sum(abs(a) for a in at + ap) * 4)

        def goals(o):
            return [_tol_goal('E_theta unchanged by an unreachable further medium', o['ea'][0], o['eb'][0], o['bound']),
                    _tol_goal('E_phi unchanged by an unreachable further medium', o['ea'][1], o['eb'][1], o['bound'])]

        def replay(conc, gn, out, th=th, ph=ph):
            I = np.array([complex(v) for v in conc['I']])
            res = []
            for spec in ([GROUNDS[0] + (0.5,), GROUNDS[1] + (None,)],
                         [GROUNDS[0] + (0.5,), GROUNDS[1] + (conc['U'],), (conc['eps3'], conc['sigma3'], conc['h3'], None)]):
                m = catalogue.build(mm, gname, media=media_list(mm, spec, boundary))
                m.current, m.power = I, 1.0
                m.compute_far_field(mm.Angle(th, 10.0, 1), mm.Angle(ph, 10.0, 1))
                res.append(np.array([m.far_field.e_theta[0][0], m.far_field.e_phi[0][0]]))
            if np.abs(res[0] - res[1]).max() <= 1e-9 * np.abs(res[0]).max():
                return None
            return ('C11:far-medium:%s' % boundary, '%s: a third medium beyond every reflection point (boundary at %r) changes the field at '
                    'theta=%g phi=%g' % (gname, conc['U'], th, ph), dict(kind='far-medium'))
        prove_paths(ck, 'far-medium-%s-%s-%g-%g' % (gname, boundary, th, ph), fn, goals, replay, max_paths=64, twin_timeout_ms=2000,
                    sqrt_mode='uf', prefer_true=('compute_far_field',))


def medium_sweep(ck, sh, mm, gname):
    """The limit is approached in practice by changing the constants of the ground and asking for the pattern again:
    after the constants of a Medium were changed (and after a change of frequency) a second far-field request on the
    SAME objects gives the pattern of a freshly built model, for all pulse currents."""
    M = sh.mininec
    for th, ph in DIRS[:2]:
        def fn(th=th, ph=ph):
            med = M.Medium(*GROUNDS[0][:2])
            m = catalogue.build(M, gname, media=[med])
            n = len(m.pulses)
            I = _box_currents(n, 1.0)
            _set_currents(m, I)
            m.power = 1.0
            e_first = _ff(m, M, th, ph)
            med.permittivity, med.conductivity = GROUNDS[2][0], GROUNDS[2][1]
            e_second = _ff(m, M, th, ph)
            fresh = catalogue.build(M, gname, media=[M.Medium(*GROUNDS[2][:2])])
            _set_currents(fresh, I)
            fresh.power = 1.0
            e_fresh = _ff(fresh, M, th, ph)
            at, ap = farfield.coefficients(catalogue.build(M, gname), th, ph)
            return dict(inputs=dict(I=I), a=e_second, b=e_fresh, bound=sum(abs(x) for x in at + ap) * 4)

        def goals(o):
            return [_tol_goal('E_theta after changing the ground constants = fresh model', o['a'][0], o['b'][0], o['bound']),
                    _tol_goal('E_phi after changing the ground constants = fresh model', o['a'][1], o['b'][1], o['bound'])]

        def replay(conc, gn, out, th=th, ph=ph):
            I = np.array([complex(v) for v in conc['I']])
            if np.abs(I).max() < 1e-6:
                I = np.array([complex(1 + 0.3 * k, 0.5 - 0.2 * k) for k in range(len(I))])
            med = mm.Medium(*GROUNDS[0][:2])
            m = catalogue.build(mm, gname, media=[med])
            m.current, m.power = I, 1.0
            zen, azi = mm.Angle(5.0, 10.0, 9), mm.Angle(0.0, 45.0, 8)
            m.compute_far_field(zen, azi)
            med.permittivity, med.conductivity = GROUNDS[2][0], GROUNDS[2][1]
            m.compute_far_field(zen, azi)
            a = np.stack([m.far_field.e_theta, m.far_field.e_phi])
            fresh = catalogue.build(mm, gname, media=[mm.Medium(*GROUNDS[2][:2])])
            fresh.current, fresh.power = I, 1.0
            fresh.compute_far_field(zen, azi)
            b = np.stack([fresh.far_field.e_theta, fresh.far_field.e_phi])
            if np.abs(a - b).max() <= 1e-9 * np.abs(b).max():
                return None
            return ('C11:medium-sweep', '%s: after the ground constants were changed from %s to %s the pattern still differs from a fresh model by %.3g of its maximum'
                    % (gname, GROUNDS[0][:2], GROUNDS[2][:2], np.abs(a - b).max() / np.abs(b).max()), dict(kind='medium-sweep', geometry=gname))
        prove_paths(ck, 'medium-sweep-%s-%g-%g' % (gname, th, ph), fn, goals, replay, max_paths=8, fork_policy='assume', twin_timeout_ms=1000,
                    prefer_true=('compute_far_field',))


def main(args):
    ck = Check('C11', args)
    ck.shadow_stats = symx.load().stats
    parts = [('impedance_rate', ())]
    if ck.tier == 'quick':
        parts += [('non_interference', ('G9',))]
        parts += [('zero_limit', (g,)) for g in ('G8', 'G9')]
        parts += [('split', ('G9', s, b, r)) for s in SPLITS for b in ('linear', 'circular') for r in (False,)]
        parts += [('split', ('G9', 'second-of-two', 'circular', True)), ('split', ('G14', 'second-of-three', 'circular', True))]
        parts += [('far_medium', ('G9', 'linear')), ('far_medium', ('G14', 'circular'))]
        parts += [('medium_sweep', ('G9',)), ('medium_sweep', ('G14',))]
    else:
        parts += [('non_interference', (g,)) for g in ('G7', 'G9', 'G14')]
        parts += [('zero_limit', (g,)) for g in ('G7', 'G8', 'G9', 'G10', 'G14', 'G16')]
        parts += [('split', (g, s, b, r)) for g in ('G7', 'G9', 'G10', 'G14') for s in SPLITS for b in ('linear', 'circular') for r in (False, True)]
        parts += [('far_medium', (g, b)) for g in ('G7', 'G9', 'G14') for b in ('linear', 'circular')]
        parts += [('medium_sweep', (g,)) for g in ('G7', 'G8', 'G9', 'G14')]
    run_parallel(ck, 'checks.c11', parts)
    ck.assumptions += ['geometry: ground members of the catalogue; directions %s (quick: the first two)' % DIRS,
                       'media constants of the split / further-medium clauses: %s (eps, sigma, height), 8 radials of 1 mm where present; '
                       'cut position, boundary of the further medium, its constants and all pulse currents are solver variables' % GROUNDS,
                       'non-interference: eps in [1,80], sigma in [1e-4,1e12], height in [-10,0], boundary in [0.01,1e5] symbolic']
    ck.stubs += ['Mininec.fast_quad -> psi-atom stub (non-interference clause)', 'complex sqrt by its defining equations (surface impedance)']
    ck.outside += ['continuity of the Fresnel coefficients between z = 0 and small z (argued in DESIGN, not decided)', 'grazing incidence',
                   'splitting the first medium with radials (documented exclusion)', 'geometries, media constants and directions outside the listed ones']
    return ck.finish('Real compute_far_field real-ground branch, Medium, check_ground on symbolic boundaries / constants / currents; every '
                     'comparison of a reflection point with a symbolic boundary forks; z3 decides per path in linear real arithmetic.')


if __name__ == '__main__':
    run_check('C11', main)
