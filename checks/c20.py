"""C20 -- the command line is fail-safe: complete finite report, one-line diagnostic with 23, or the
option parser's usage error.

Phase 1 (symbolic, all values per path): main(argv, return_mininec=True) of the current source runs
on argument lists whose numeric fields are solver variables over wide ranges (zero, negative, huge),
divisions fork on a zero divisor; every path must end in a model, in 23 with exactly one diagnostic
line and no report, or in argparse's SystemExit -- never in another exception.
Phase 2 (one solver-generated representative per path, plus the non-finite classes nan/inf of
every field): the complete real program runs on the concrete argument list; the trichotomy and
"no nan/inf in the output" are checked on what it prints.
"""
import io
import math
import re
import contextlib
import z3
import numpy as np

from .common import Check, run_check, run_parallel
import symx
from symx import SR, SC, SI, core, npf, tokens

W = '3,0,0,0,1.5,0.3,0.2,0.002'
W2 = '2,1.5,0.3,0.2,1.7,1.2,0.9,0.004'
WV = '4,0,0,0,0,0,2,0.002'
BASE = ['--theta=10,40,2', '--phi=0,90,2']


def R(name, lo=-1e9, hi=1e9):
    return (name, 'r', lo, hi)


def I(name, lo=-3, hi=6):
    return (name, 'i', lo, hi)


def Cx(name):
    return (name, 'c', None, None)


# name -> (fields, builder(values dict of TEXT) -> argv)
TEMPLATES = {
    'frequency':   ([R('f')], lambda v: ['-f', v['f'], '-w', W] + BASE),
    'sweep':       ([R('f', 0.1, 100), R('inc', -100, 100), I('steps', -2, 3)],
                    lambda v: ['-f', v['f'], '--frequency-increment=' + v['inc'], '--frequency-steps=' + v['steps'], '-w', W,
                               '--excitation-pulse=1'] + BASE),
    'wire-radius': ([R('r', -1, 1)], lambda v: ['-w', '3,0,0,0,1.5,0.3,0.2,' + v['r'], '--excitation-pulse=1'] + BASE),
    'wire-nseg':   ([I('n', -2, 4)], lambda v: ['-w', v['n'] + ',0,0,0,1.5,0.3,0.2,0.002', '--excitation-pulse=1'] + BASE),
    'wire-z-ground': ([R('z', -5, 5)], lambda v: ['-w', '3,0,0,' + v['z'] + ',0,0,2,0.002', '--medium=0,0,0', '--excitation-pulse=1'] + BASE),
    'wire-length': ([R('x', -5, 5)], lambda v: ['-w', '3,0,0,0,' + v['x'] + ',0,0,0.002', '--excitation-pulse=1'] + BASE),
    'tags':        ([I('t1', -2, 5), I('t2', -2, 5)], lambda v: ['-w', v['t1'] + ',' + W, '-w', v['t2'] + ',' + W2, '--excitation-pulse=1'] + BASE),
    'source-addr': ([I('k', -2, 8), I('t', -2, 5)], lambda v: ['-w', W, '-w', W2, '--excitation-pulse=' + v['k'] + ',' + v['t']] + BASE),
    'source-abs':  ([I('k', -2, 8)], lambda v: ['-w', W, '-w', W2, '--excitation-pulse=' + v['k']] + BASE),
    'voltage':     ([Cx('V')], lambda v: ['-w', W, '--excitation-pulse=1', '--excitation-voltage=' + v['V']] + BASE),
    'load':        ([Cx('Z'), I('k', -2, 6)], lambda v: ['-w', W, '--excitation-pulse=1', '--load=' + v['Z'], '--attach-load=1,' + v['k']] + BASE),
    'attach':      ([I('l', -2, 4), I('k', -2, 6), I('t', -2, 4)],
                    lambda v: ['-w', W, '-w', W2, '--excitation-pulse=1', '--load=50+1j', '--attach-load=%s,%s,%s' % (v['l'], v['k'], v['t'])] + BASE),
    'rlc':         ([R('R', -10, 1e6), R('L', -1, 1), R('C', -1, 1)],
                    lambda v: ['-w', W, '--excitation-pulse=1', '--rlc-load=%s,%s,%s' % (v['R'], v['L'], v['C']), '--attach-load=1,1'] + BASE),
    'trap':        ([R('R', -10, 1e6), R('L', -1, 1), R('C', -1, 1)],
                    lambda v: ['-w', W, '--excitation-pulse=1', '--trap-load=%s,%s,%s' % (v['R'], v['L'], v['C']), '--attach-load=1,1'] + BASE),
    'trap-arity':  ([R('R', -10, 1e6)], lambda v: ['-w', W, '--excitation-pulse=1', '--trap-load=%s' % v['R'], '--attach-load=1,1'] + BASE),
    'laplace':     ([R('a0', -10, 10), R('a1', -10, 10), R('b0', -10, 10)],
                    lambda v: ['-w', W, '--excitation-pulse=1', '--laplace-load-a=%s,%s' % (v['a0'], v['a1']), '--laplace-load-b=%s' % v['b0'],
                               '--attach-load=1,1'] + BASE),
    'skin-cond':   ([R('s', -10, 1e9)], lambda v: ['-w', W, '--excitation-pulse=1', '--skin-effect-conductivity=' + v['s']] + BASE),
    'skin-res':    ([R('s', -10, 10), I('t', -1, 3)], lambda v: ['-w', W, '--excitation-pulse=1', '--skin-effect-resistivity=%s,%s' % (v['s'], v['t'])] + BASE),
    'insulation':  ([R('b', -1, 1), R('e', -5, 80)], lambda v: ['-w', W, '--excitation-pulse=1', '--insulation-load=%s,%s' % (v['b'], v['e'])] + BASE),
    'medium':      ([R('e', -5, 80), R('g', -1, 10), R('h', -5, 5)],
                    lambda v: ['-w', WV, '--excitation-pulse=1', '--medium=%s,%s,%s' % (v['e'], v['g'], v['h'])] + ['--theta=10,30,2', '--phi=0,90,2']),
    'media2':      ([R('e', -5, 80), R('g', -1, 10), R('h', -5, 5), R('u', -10, 100)],
                    lambda v: ['-w', WV, '--excitation-pulse=1', '--medium=13,0.005,0,%s' % v['u'], '--medium=%s,%s,%s' % (v['e'], v['g'], v['h']),
                               '--theta=10,30,2', '--phi=0,90,2']),
    'radials':     ([I('n', -2, 20), R('rr', -1, 1)],
                    lambda v: ['-w', WV, '--excitation-pulse=1', '--medium=13,0.005,0,5', '--medium=5,0.001,-1', '--radial-count=' + v['n'],
                               '--radial-radius=' + v['rr'], '--theta=10,30,2', '--phi=0,90,2']),
    'radials-noradius': ([I('n', -2, 20)],
                    lambda v: ['-w', WV, '--excitation-pulse=1', '--medium=13,0.005,0,5', '--medium=5,0.001,-1', '--radial-count=' + v['n'],
                               '--theta=10,30,2', '--phi=0,90,2']),
    'theta':       ([R('t0', -400, 400), R('ti', -400, 400), I('tn', -2, 3)], lambda v: ['-w', W, '--excitation-pulse=1',
                                                                                   '--theta=%s,%s,%s' % (v['t0'], v['ti'], v['tn']), '--phi=0,90,2']),
    'near':        ([R('s', -10, 10), R('i', -5, 5), I('n', -2, 3)],
                    lambda v: ['-w', W, '--excitation-pulse=1', '--near-field=%s,1,1,%s,1,1,%s,1,1' % (v['s'], v['i'], v['n'])]),
    'powers':      ([R('p', -10, 1e4), R('d', -10, 1e6)],
                    lambda v: ['-w', W, '--excitation-pulse=1', '--ff-power=' + v['p'], '--ff-distance=' + v['d'], '--option=far-field-absolute'] + BASE),
    'nf-power':    ([R('p', -10, 1e4)], lambda v: ['-w', W, '--excitation-pulse=1', '--nf-power=' + v['p'], '--near-field=1,1,1,1,1,1,1,1,2']),
    'scale':       ([R('s', -10, 10), I('t', -1, 3)], lambda v: ['-w', W, '--excitation-pulse=1', '--geo-scale=%s,%s' % (v['s'], v['t'])] + BASE),
    'translate':   ([R('x', -1e3, 1e3), I('t', -1, 3)], lambda v: ['-w', W, '--excitation-pulse=1', '--geo-translate=1,%s,0,0,%s' % (v['x'], v['t'])] + BASE),
    'transform-keys': ([R('k1', -3, 3), R('k2', -3, 3)], lambda v: ['-w', W, '--excitation-pulse=1', '--geo-rotate=%s,0,90,0' % v['k1'],
                                                                    '--geo-translate=%s,0,0,5' % v['k2']] + BASE),
    'rotate-keys': ([R('k1', -3, 3), R('k2', -3, 3)], lambda v: ['-w', W, '--excitation-pulse=1', '--geo-rotate=%s,0,90,0' % v['k1'],
                                                                 '--geo-rotate=%s,30,0,0' % v['k2']] + BASE),
    'translate-diag': ([R('x', -1e3, 1e3)], lambda v: ['-w', W, '--excitation-pulse=1', '--geo-translate=1,%s,%s,%s' % (v['x'], v['x'], v['x'])] + BASE),
    'scale-twice': ([R('s', -10, 10)], lambda v: ['-w', W, '--excitation-pulse=1', '--geo-scale=%s' % v['s'], '--geo-scale=%s' % v['s']] + BASE),
    'rotate-translate-arc': ([R('x', -1e3, 1e3), R('a', -400, 400)], lambda v: ['-a', '3,1.0,10,130,0.002', '--excitation-pulse=1',
                              '--geo-rotate=1,%s,0,%s' % (v['a'], v['a']), '--geo-translate=2,%s,%s,%s' % (v['x'], v['x'], v['x'])] + BASE),
    'taper':       ([I('k', -1, 4), R('mn', -1, 2), R('mx', -1, 2)],
                    lambda v: ['-w', '4,0,0,0,7,0,0,0.5', '--excitation-pulse=1', '--taper-wire=1,%s,%s,%s' % (v['k'], v['mn'], v['mx'])] + BASE),
    'arc':         ([I('n', -1, 5), R('R', -1, 2), R('a2', -400, 800), R('r', -1, 1)],
                    lambda v: ['-a', '%s,%s,10,%s,%s' % (v['n'], v['R'], v['a2'], v['r']), '--excitation-pulse=1'] + BASE),
    'helix':       ([I('n', -1, 5)],
                    lambda v: ['-H', '%s,%s,%s,0.002,0.3,0.25' % (v['n'], v.get('L', '1.0'), v.get('T', '0.5')), '--excitation-pulse=1'] + BASE),
    'arity-wire':  ([R('r', 0.001, 0.01)], lambda v: ['-w', '3,0,0,0,1.5,0.3,' + v['r'], '--excitation-pulse=1'] + BASE),
    'arity-medium': ([R('e', 1, 80)], lambda v: ['-w', WV, '--excitation-pulse=1', '--medium=%s,0.005' % v['e']] + BASE),
    'unused-load': ([Cx('Z')], lambda v: ['-w', W, '--excitation-pulse=1', '--load=' + v['Z']] + BASE),
    'ideal+radials': ([I('n', 0, 5)], lambda v: ['-w', WV, '--excitation-pulse=1', '--medium=0,0,0', '--radial-count=' + v['n'], '--radial-radius=0.001',
                                                '--theta=10,30,2', '--phi=0,90,2']),
}

NONFINITE = ['nan', 'inf', '-inf', '0', '-1', '1e-300', '1e300']      # special classes of every real field
# fields that stay concrete in the symbolic run but are exercised through the complete program with special values
SPECIALS = {'helix': dict(L=['0', '-1', '1e-9', '1e9', 'nan', 'inf'], T=['0', '-0.5', '1e-9', '1e9', 'nan', '-inf'])}


def classify(rc, out, err, exc):
    """-> None if the trichotomy holds, else a short description."""
    if exc is not None:
        if isinstance(exc, SystemExit):
            return None
        return 'uncaught %s: %s' % (type(exc).__name__, str(exc)[:80])
    text = out + err
    if rc == 23:
        lines = [l for l in text.split('\n') if l.strip()]
        if len(lines) != 1:
            return 'return value 23 with %d output lines' % len(lines)
        return None
    if rc is None:
        if re.search(r'(?<![A-Za-z])(nan|inf)(?![A-Za-z])', out, re.I):
            return 'report contains nan/inf'
        if 'CURRENT DATA' not in out:
            return 'no complete report and no diagnostic'
        return None
    return 'unexpected return value %r' % (rc,)


def run_real(mm, argv):
    out, err = io.StringIO(), io.StringIO()
    rc, exc = None, None
    old = np.seterr(all='ignore')
    import warnings
    try:
        with warnings.catch_warnings():
            warnings.simplefilter('ignore')
            with contextlib.redirect_stdout(out), contextlib.redirect_stderr(err):
                rc = mm.main(list(argv), f_err=err)
    except SystemExit as e:
        exc = e
    except Exception as e:
        exc = e
    finally:
        np.seterr(**old)
    return rc, out.getvalue(), err.getvalue(), exc


CLASS = {'nan': 'nan', 'inf': 'inf', '-inf': '-inf', '0': 'zero', '-1': 'negative', '1e-300': 'tiny', '1e300': 'huge',
         '1e-9': 'tiny', '1e9': 'huge', '-0.5': 'negative'}


def _key(tname, what):
    m = re.match(r'(\w+)=(\S+?):(.*)', what)
    if m and m.group(2) in CLASS:
        what = '%s=%s:%s' % (m.group(1), CLASS[m.group(2)], m.group(3))
    w = re.sub(r'(?<![A-Za-z=])[-+]?\d+\.?\d*(?:[eE][-+]?\d+)?', '#', what)
    return 'C20:%s:%s' % (tname, w[:70])


def template(ck, sh, mm, tname):
    M = sh.mininec
    fields, build = TEMPLATES[tname]

    def mk(c):
        vals, texts = {}, {}
        for name, kind, lo, hi in fields:
            if kind == 'r':
                x = SR.var(name)
                c.assume(z3.And(x.n >= core.RV(lo), x.n <= core.RV(hi)))
                vals[name], texts[name] = x, tokens.exact(x)
            elif kind == 'i':
                x = SI.var(name)
                c.assume(z3.And(x.t >= lo, x.t <= hi))
                vals[name], texts[name] = x, tokens.exact(x)
            else:
                x = SC.var(name)
                c.assume(z3.And(x.nr >= -1e6, x.nr <= 1e6, x.ni >= -1e6, x.ni <= 1e6))
                vals[name], texts[name] = x, '%s+%sj' % (tokens.exact(x.re), tokens.exact(x.im))
        return vals, texts

    def fn():
        c = symx.ctx()
        vals, texts = mk(c)
        argv = build(texts)
        out, err = io.StringIO(), io.StringIO()
        rc, exc = None, None
        try:
            with symx.object_arrays(), contextlib.redirect_stdout(out), contextlib.redirect_stderr(err):
                rc = M.main(list(argv), f_err=err, return_mininec=True)
                if hasattr(rc, 'as_cmdline'):
                    # phase 1b: the value-dependent arithmetic right after construction (divisions fork on zero)
                    for l_ in rc.loads:
                        for p_ in l_.pulses:
                            l_.impedance(rc.f, p_)
                    rc.compute_rhs()
        except SystemExit as e:
            exc = e
        except symx.HarnessError:
            raise
        except Exception as e:
            exc = e
        return dict(vals=vals, rc=rc, out=out.getvalue(), err=err.getvalue(), exc=exc)

    paths = symx.explore(fn, max_paths=120 if ck.tier == 'quick' else 2000, query_timeout_ms=5000, div_mode='fork',
                         catch=(), wall_s=40 if ck.tier == 'quick' else 900)
    ck.account(paths)
    ck.twin('template-' + tname, len(paths) > 0)

    def conc_argv(model, vals, override=None):
        texts = {}
        for name, kind, lo, hi in fields:
            if override and name in override:
                texts[name] = override[name]
                continue
            v = core.model_value(model, vals[name])
            if kind == 'i':
                texts[name] = str(int(v))
            elif kind == 'c':
                texts[name] = repr(complex(v)).strip('()')
            else:
                texts[name] = repr(float(v))
        for k_, v_ in (override or {}).items():
            texts.setdefault(k_, v_)
        return build(texts)

    seen = set()
    for pi, p in enumerate(paths):
        o = p.value
        s = z3.Solver()
        s.set('timeout', 5000)
        s.add(p.pc + p.axioms)
        if str(s.check()) != 'sat':
            continue
        mdl = s.model()
        # ---- phase 1 verdict of this path (holds for all values on it)
        rc = o['rc']
        sym_bad = None
        if o['exc'] is not None and not isinstance(o['exc'], SystemExit):
            sym_bad = 'uncaught %s' % type(o['exc']).__name__
        elif o['exc'] is None and not hasattr(rc, 'as_cmdline'):
            sym_bad = classify(rc, o['out'], o['err'], None) if rc == 23 else 'unexpected return value %r' % (rc,)
        on = 'phase1/%s/path%d' % (tname, pi)
        argv = conc_argv(mdl, o['vals'])
        rrc, rout, rerr, rexc = run_real(mm, argv)
        bad = classify(rrc, rout, rerr, rexc)
        sample = dict(obligation=on, template=tname, representative=' '.join(argv), symbolic_outcome=sym_bad or 'ok',
                      real_outcome=bad or 'ok')
        if sym_bad is None:
            ck.record(on, 'discharged', sample=sample)
        else:
            if bad is None:
                ck.record(on, 'spurious', detail=sample, sample=sample)
            else:
                v = ck.report_violation(_key(tname, bad), '%s: %s (main %s)' % (tname, bad, ' '.join(argv)),
                                        dict(kind='cli', argv=argv))
                ck.record(on, v, detail=bad, sample=sample)
                seen.add(_key(tname, bad))
                continue
        # ---- phase 2: the complete program on the representative of this path
        on2 = 'phase2/%s/path%d' % (tname, pi)
        if bad is None:
            ck.record(on2, 'discharged', sample=dict(sample, obligation=on2))
        else:
            k = _key(tname, bad)
            v = ck.report_violation(k, '%s: %s (main %s)' % (tname, bad, ' '.join(argv)), dict(kind='cli', argv=argv))
            ck.record(on2, v, detail=bad, sample=dict(sample, obligation=on2))
    # ---- non-finite classes of every field, other fields from an accepted path
    base = None
    for p in paths:
        if hasattr(p.value['rc'], 'as_cmdline'):
            s = z3.Solver()
            s.add(p.pc + p.axioms)
            if str(s.check()) == 'sat':
                base = (s.model(), p.value['vals'])
                break
    if base is not None:
        for name, kind, lo, hi in fields:
            if kind == 'i':
                continue
            for nf in NONFINITE:
                txt = nf if kind == 'r' else (nf + '+0j')
                argv = conc_argv(base[0], base[1], {name: txt})
                rrc, rout, rerr, rexc = run_real(mm, argv)
                bad = classify(rrc, rout, rerr, rexc)
                on3 = 'nonfinite/%s/%s=%s' % (tname, name, nf)
                sample = dict(obligation=on3, template=tname, representative=' '.join(argv), real_outcome=bad or 'ok')
                if bad is None:
                    ck.record(on3, 'discharged', sample=sample)
                else:
                    v = ck.report_violation(_key(tname, name + '=' + nf + ':' + bad), '%s: %s=%s: %s (main %s)' % (tname, name, nf, bad, ' '.join(argv)),
                                            dict(kind='cli', argv=argv))
                    ck.record(on3, v, detail=bad, sample=sample)
        for name, texts_ in SPECIALS.get(tname, {}).items():
            for txt in texts_:
                argv = conc_argv(base[0], base[1], {name: txt})
                rrc, rout, rerr, rexc = run_real(mm, argv)
                bad = classify(rrc, rout, rerr, rexc)
                on3 = 'special/%s/%s=%s' % (tname, name, txt)
                sample = dict(obligation=on3, template=tname, representative=' '.join(argv), real_outcome=bad or 'ok')
                if bad is None:
                    ck.record(on3, 'discharged', sample=sample)
                else:
                    v = ck.report_violation(_key(tname, name + '=' + txt + ':' + bad), '%s: %s=%s: %s (main %s)' % (tname, name, txt, bad, ' '.join(argv)),
                                            dict(kind='cli', argv=argv))
                    ck.record(on3, v, detail=bad, sample=sample)
    ck.bounds.setdefault('templates', []).append('%s: %s' % (tname, [(f[0], f[1], f[2], f[3]) for f in fields]))


def main(args):
    ck = Check('C20', args)
    ck.shadow_stats = symx.load().stats
    names = list(TEMPLATES)
    run_parallel(ck, 'checks.c20', [('template', (n,)) for n in names], part_timeout_s=150 if ck.tier == 'quick' else 3600)
    ck.assumptions += ['argument lists come from the listed templates (one to four numeric fields symbolic, the rest concrete)',
                       'phase 1 is symbolic up to the constructed model (parsing, constructors, tags, transformations, segmentation, '
                       'ground, connections, source/load registration); the matrix fill and solve are not executed symbolically',
                       'phase 2 and the non-finite classes are decided by running the complete real program on one solver-generated '
                       'representative per explored path (this part is path-guided test generation, not a for-all verdict)']
    ck.stubs += ['printf tokens / shadow float,int,complex for argparse']
    ck.outside += ['finite but ill-conditioned systems (whether LAPACK returns finite numbers)', 'argument shapes outside the templates',
                   'for-all claims about the compute phase']
    return ck.finish('Symbolic execution of main up to the constructed model on token argument lists (divisions fork on zero): every '
                     'path ends in a model, a one-line diagnostic or a usage error; one solver-generated representative per path and '
                     'the nan/inf classes of every field are run through the complete real program and classified by the trichotomy.')


if __name__ == '__main__':
    run_check('C20', main)
