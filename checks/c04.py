"""C04 -- near field = field of the solved pulse currents (assembly of E and H from psi and the currents).

The real compute_near_field / nf_helper / psi_near_field_56 / psi run for one observation point on
catalogue geometries with symbolic pulse currents and every numerical integral an unknown
(psi-atom stub).  The reference (refmodels/nearfield.py) writes E and H from pulse geometry only:
per half-segment its own flow direction, radius and segment length; central differences over
0.001 lambda as MININEC specifies; image terms with mirrored direction, dropped for pulses on the
ground plane.  Both sides are bilinear forms in (currents x integrals); z3 decides on the monomial
relaxation (every product current*integral an independent variable in [-1,1]) that all six field
components agree for ALL currents and ALL values of the integrals.  A structural difference is
replayed by the property's own sentence on the real code: solved currents of a fed antenna, fields
against adaptive quadrature of the pulse currents and charges, 1 %.
Also: power scaling E(P_req) = sqrt(P_req/P) E for all positive P, P_req.
Outside: convergence to the far field, E/H = 376.7 ohm, transversality (limits of transcendental
expressions)."""
from fractions import Fraction
import numpy as np
import z3

from .common import Check, run_check, prove_paths, run_parallel
import symx
from symx import SR, SC, core, psistub, poly
from refmodels import catalogue, mininec3, nearfield
from . import psi_common as pc
from .c10 import _box_currents, _set_currents
from .c08 import pos

POINTS = {False: [(1.3, -0.8, 2.5), (-2.0, 1.0, -0.7)], True: [(1.3, -0.8, 2.5), (-2.0, 1.0, 0.9)]}


def _kinds(m):
    ks = set()
    for p in m.pulses:
        if np.asarray(p.ground).any():
            ks.add('grounded-end%d' % (1 if np.asarray(p.ground)[0] else 2))
        elif p.geo[0] is not p.geo[1]:
            ks.add('junction')
        else:
            h = mininec3.halves(p)
            if abs(h[0]['len'] - h[1]['len']) > 1e-9 * h[0]['len']:
                ks.add('unequal-segments')
            elif np.linalg.norm(h[0]['t'] - h[1]['t']) > 1e-9:
                ks.add('bend')
    return '+'.join(sorted(ks)) or 'straight'


def assembly(ck, sh, mm, gname, pi, second_f=None):
    M = sh.mininec
    T = psistub.AtomTable()
    pc.install(M, T)
    objs, gnd = catalogue.spec(gname)
    x = np.array(POINTS[gnd][pi])

    def fn():
        c = symx.ctx()
        m = catalogue.build(M, gname)
        n = len(m.pulses)
        I = _box_currents(n, 1.0)
        _set_currents(m, I)
        m.power = 1.0
        with symx.object_arrays():
            m.compute_near_field(x, np.ones(3), np.ones(3, dtype=int))
            if second_f is not None:
                # a sweep step: the same object at another frequency -- the field must be that of the new wavelength
                m.f = second_f
                m.compute_near_field(x, np.ones(3), np.ones(3, dtype=int))
        E, H = nearfield.fields(m, x, I, mininec3.atom_psi(T, m, near_field=True))
        return dict(inputs=dict(I=I), e=list(m.e_field[0]), h=list(m.h_field[0]), E=E, H=H)

    def goals(o):
        g = []
        for nm, code, ref in (('E', o['e'], o['E']), ('H', o['h'], o['H'])):
            for cidx, ax in enumerate('xyz'):
                a, b = SC.lift(code[cidx]), SC.lift(ref[cidx])
                d = a - b
                if d.dr is not None:
                    raise symx.HarnessError('near field: unexpected denominator')
                # tolerance: 1e-9 of the sum of |coefficients| of the reference form
                tot = Fraction(0)
                for part in (b.nr, b.ni):
                    tot += sum(abs(v) for v in poly.expand(part).values())
                tol = tot * Fraction(1, 10 ** 9) + Fraction(1, 10 ** 30)
                g.append(('%s_%s = assembly from pulse geometry' % (nm, ax),
                          z3.Not(poly.relaxation_query([d.nr, d.ni], {}, tol, default=1))))
        return g

    def replay(conc, gn, out):
        return replay_sentence(mm, gname, x, second_f)
    prove_paths(ck, 'assembly-%s-pt%d%s' % (gname, pi, '' if second_f is None else '-then-%gMHz' % second_f), fn, goals, replay, max_paths=4, fork_policy='assume', twin_timeout_ms=2000,
                timeout_ms=30000 if ck.tier == 'quick' else 120000)
    ck.bounds.setdefault('assembly', []).append('%s at %s: %d integral atoms' % (gname, [float(v) for v in x], len(T.atoms)))


def replay_sentence(mm, gname, x, second_f=None):
    """Feed every pulse in turn, solve, compare the reported near field at x with the fields of the solved
    pulse currents and charges integrated adaptively; 1 % of the field magnitude."""
    m0 = catalogue.build(mm, gname)
    worst = None
    for feed in range(len(m0.pulses)):
        m = catalogue.build(mm, gname)
        m.register_source(mm.Excitation(1.0), feed)
        m.compute()
        m.compute_near_field(x, np.ones(3), np.ones(3, dtype=int), pwr=100.0)
        if second_f is not None:
            m.f = second_f
            m.compute()
            m.compute_near_field(x, np.ones(3), np.ones(3, dtype=int), pwr=100.0)
        f_e = np.sqrt(100.0 / m.power)
        E, H = nearfield.fields(m, x, list(m.current), mininec3.quad_psi(m, 1e-9), f_e=f_e)
        e, h = np.array(m.e_field[0]), np.array(m.h_field[0])
        E, H = np.array(E), np.array(H)
        de = np.abs(e - E).max() / np.abs(E).max()
        dh = np.abs(h - H).max() / np.abs(H).max()
        if max(de, dh) > 0.01 and (worst is None or max(de, dh) > worst[0]):
            worst = (max(de, dh), feed, de, dh, e, E)
    if worst is None:
        return None
    dev, feed, de, dh, e, E = worst
    return ('C04:assembly:%s:%s' % ('ground' if m0.media is not None else 'free', _kinds(m0)),
            '%s fed on pulse %d, 100 W, at %s: reported E deviates %.1f %%, H %.1f %% from the fields of the solved pulse '
            'currents and charges (E reported %s, independent %s)' % (gname, feed + 1, [float(v) for v in x], 100 * de, 100 * dh,
                                                                         np.array2string(e, precision=4), np.array2string(E, precision=4)),
            dict(kind='sentence', geometry=gname, point=[float(v) for v in x]))


def power_scaling(ck, sh, mm, gname):
    """E, H scale with sqrt(P_req / P): two requests on one model, concrete integrals (real fast_quad)."""
    M = sh.mininec
    x = np.array(POINTS[catalogue.spec(gname)[1]][0])

    def fn():
        m = catalogue.build(M, gname)
        n = len(m.pulses)
        I = _box_currents(n, 1.0)
        _set_currents(m, I)
        P = pos('P', 1e-6, 1e6)
        Preq = pos('Preq', 1e-6, 1e6)
        m.power = P
        with symx.object_arrays():
            m.compute_near_field(x, np.ones(3), np.ones(3, dtype=int))
            e1, h1 = list(m.e_field[0]), list(m.h_field[0])
            m.compute_near_field(x, np.ones(3), np.ones(3, dtype=int), pwr=Preq)
            e2, h2 = list(m.e_field[0]), list(m.h_field[0])
            y = npf_sqrt(Preq / P)
        return dict(inputs=dict(I=I, P=P, Preq=Preq), e1=e1, h1=h1, e2=e2, h2=h2, y=y, P=P, Preq=Preq)

    def goals(o):
        g = [('scale factor squared = P_req / P', core.eq_term(SR.lift(o['y']) * o['y'] * o['P'], o['Preq']))]
        conj = []
        for a, b in zip(o['e1'] + o['h1'], o['e2'] + o['h2']):
            conj.append(core.eq_term(SC.lift(a) * o['y'], b))
        g.append(('E, H at P_req = sqrt(P_req/P) * (E, H at the computed power)', z3.And(*conj)))
        return g

    def replay(conc, gn, out):
        m = catalogue.build(mm, gname)
        m.current = np.array([complex(v) for v in conc['I']])
        m.power = float(conc['P'])
        m.compute_near_field(x, np.ones(3), np.ones(3, dtype=int))
        e1 = np.array(m.e_field[0])
        m.compute_near_field(x, np.ones(3), np.ones(3, dtype=int), pwr=float(conc['Preq']))
        e2 = np.array(m.e_field[0])
        fac = np.sqrt(float(conc['Preq']) / float(conc['P']))
        if np.abs(e2 - e1 * fac).max() <= 1e-9 * np.abs(e2).max():
            return None
        return ('C04:power-scaling', '%s: near field at P_req=%r is not sqrt(P_req/P) times the field at P=%r'
                % (gname, conc['Preq'], conc['P']), dict(kind='power'))
    prove_paths(ck, 'power-%s' % gname, fn, goals, replay, max_paths=4, sqrt_mode='uf', fork_policy='assume', twin_timeout_ms=2000)


def npf_sqrt(x):
    from symx import npf
    return npf.sqrt(x)


def main(args):
    ck = Check('C04', args)
    ck.shadow_stats = symx.load().stats
    if ck.tier == 'quick':
        geos = ['G1', 'G2', 'G3', 'G4', 'G8', 'G9', 'G11', 'G15']
        parts = [('assembly', (g, 0)) for g in geos] + [('power_scaling', ('G2',))] + [('assembly', ('G2', 0, 21.3)), ('assembly', ('G8', 0, 21.3))]
    else:
        geos = ['G1', 'G2', 'G3', 'G4', 'G5', 'G6', 'G7', 'G8', 'G9', 'G10', 'G11', 'G12', 'G13', 'G14', 'G16']
        parts = [('assembly', (g, k)) for g in geos for k in (0, 1)] + [('power_scaling', (g,)) for g in ('G2', 'G9')] + [('assembly', (g, 0, 21.3)) for g in ('G2', 'G8', 'G9', 'G11')]
    run_parallel(ck, 'checks.c04', parts)
    ck.assumptions += ['geometry: catalogue members (straight, L joined end2-end1 / end1-end1 / end2-end2 with different radii and segment '
                       'lengths, T, star, wires grounded at either end, tapered wire, arc, helix); one or two observation points more than a '
                       'segment away from every wire', 'pulse currents arbitrary complex in a box; every numerical integral an unknown in a box; '
                       'products current*integral relaxed to independent variables (sound for the for-all claim)']
    ck.stubs += ['Mininec.fast_quad -> psi-atom stub; nf_helper, psi_near_field_56, psi, compute_near_field run unmodified']
    ck.outside += ['agreement of Gauss quadrature with adaptive quadrature (replay only)', 'convergence to the far field at many wavelengths, '
                   'E/H = 376.7 ohm, transversality', 'observation points within one segment of a conductor']
    return ck.finish('Real near-field code on symbolic currents over unknown integrals vs the per-half assembly written from pulse geometry; '
                     'z3 decides equality of the bilinear forms on the monomial relaxation (LRA).')


if __name__ == '__main__':
    run_check('C04', main)
