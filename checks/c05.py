"""C05 -- rigid-motion and electromagnetic-scaling invariance; options == coordinates.

 (A) fill invariance.  For a catalogue antenna three models are built with the real main(): the base model,
     the model moved through --geo-rotate / --geo-translate / --geo-scale options (given on the command line
     in the opposite order of their sort keys, frequency divided by the scale factor) and the model whose
     coordinates and radii were transformed by the reference (rotation about X, then Y, then Z; then
     translation; scaling last).  All three are filled over ONE table of unknown integrals (identified by
     relative geometry in electrical units).  z3 decides for ALL values of the integrals: the two moved
     models have the same matrix (options == coordinates), and s * Z_moved = Z_base entry by entry; for all
     complex V and Z_L that s * rhs and s * load weight are unchanged; for all pulse currents that the far
     field at the rotated azimuth equals the base field times the translation phase (rotation about Z).
     The transformations are concrete and chosen adversarially (100 wavelengths away, negative coordinates,
     right angles and generic angles about three axes, scale 0.01 and 100); per-tag transformations are
     compared options-vs-coordinates.
 (B) topology decisions under a SYMBOLIC scale factor s in [0.01, 100], a symbolic translation and a symbolic
     rotation about Z: the real Mininec.__init__ (segmentation, ground detection, end matching with the
     1/1000 tolerance, pulse creation) runs on coordinates that are z3 terms; every branch that both
     outcomes are feasible for is a decision that depends on where or how large the antenna is -- a
     candidate, replayed with two concrete parameter values on the real code (pulse count, then impedance).
Outside: rounding for far translations (5e-4 clause), arbitrary rotations of the far-field table (only the
rotation about Z is decided for the pattern)."""
import contextlib
import io
import math
from fractions import Fraction
import numpy as np
import z3

from .common import Check, run_check, prove_paths, run_parallel
import symx
from symx import SR, SC, core, psistub, npf
from refmodels import catalogue, farfield
from . import psi_common as pc
from .c10 import _box_currents, _set_currents
from .c08 import pos

F0 = catalogue.F0

# name: (rotation degrees (x, y, z), translation, scale)
MOVES_FREE = {
    'far-generic': ((33.7, -71.3, 118.9), (1234.5, -987.6, 555.5), 0.01),
    'right-angles': ((90.0, 0.0, 180.0), (-3.3, 0.0, -20.0), 100.0),
    'z-only': ((0.0, 0.0, 47.0), (0.5, -0.25, 0.125), 3.7),
    'x-then-y': ((-120.0, 45.0, 0.0), (0.0, 0.0, 0.0), 1.0),
    # the same factor 8 requested in two steps (2, then 4): coordinates AND radius carry the product
    'two-scales': ((0.0, 0.0, 20.0), (0.1, 0.2, 0.3), 8.0),
}
MOVES_GND = {
    'z-far': ((0.0, 0.0, 118.9), (1234.5, -987.6, 0.0), 0.01),
    'z-right': ((0.0, 0.0, 270.0), (-3.3, 7.0, 0.0), 100.0),
    # a quarter turn and nothing else: directions keep exactly representable relations (dx = dy becomes dx = -dy)
    'z-quarter': ((0.0, 0.0, 90.0), (0.0, 0.0, 0.0), 1.0),
}


def rot_matrix(rot):
    ax, ay, az = (math.radians(a) for a in rot)
    rx = np.array([[1, 0, 0], [0, math.cos(ax), -math.sin(ax)], [0, math.sin(ax), math.cos(ax)]])
    ry = np.array([[math.cos(ay), 0, math.sin(ay)], [0, 1, 0], [-math.sin(ay), 0, math.cos(ay)]])
    rz = np.array([[math.cos(az), -math.sin(az), 0], [math.sin(az), math.cos(az), 0], [0, 0, 1]])
    return rz @ ry @ rx


def ref_point(p, rot, tr, s):
    return (rot_matrix(rot) @ np.asarray(p, dtype=float) + np.asarray(tr, dtype=float)) * s


def wire_args(objs, fmt=repr):
    out = []
    for k_, o in enumerate(objs):
        if o[0] == 'a':
            out += ['-a', ','.join([str(o[1])] + [fmt(float(c)) for c in o[2:6]])]
            continue
        if o[0] == 'h':
            out += ['--helix', ','.join([str(o[1])] + [fmt(float(c)) for c in o[2:7]])]
            continue
        out += ['-w', ','.join([str(o[1])] + [fmt(float(c)) for c in o[2]] + [fmt(float(c)) for c in o[3]] + [fmt(float(o[4]))])]
        if len(o) > 5 and o[5]:
            out += ['--taper-wire=%d,%d' % (k_ + 1, o[5])]          # tapered segmentation (bounds depend on the radius)
    return out


def run_main(main, argv):
    err, out = io.StringIO(), io.StringIO()
    with contextlib.redirect_stdout(out), contextlib.redirect_stderr(err):
        m = main(list(argv), f_err=err, return_mininec=True)
    if not hasattr(m, 'pulses'):
        raise symx.HarnessError('main refused %s: %s' % (argv, err.getvalue() + out.getvalue()))
    return m


def three_models(main, gname, move, tag=None):
    """-> base, moved through options, moved through coordinates (and rot, tr, s)"""
    objs, gnd = catalogue.spec(gname)
    rot, tr, s = move
    tail = ['--excitation-pulse=1'] + (['--medium=0,0,0'] if gnd else [])
    base = run_main(main, ['-f', repr(F0)] + wire_args(objs) + tail)
    tg = '' if tag is None else ',%d' % tag
    # translation key 2 first on the command line, rotation key 1 second: sorting by key must rotate first
    opts = ['--geo-translate=2,%r,%r,%r%s' % (tr[0], tr[1], tr[2], tg), '--geo-rotate=1,%r,%r,%r%s' % (rot[0], rot[1], rot[2], tg)]
    if s == 8.0:
        opts = ['--geo-scale=%r%s' % (2.0, tg), '--geo-scale=%r%s' % (4.0, tg)] + opts
    elif s != 1.0:
        opts = ['--geo-scale=%r%s' % (s, tg)] + opts          # scaling is given first and must still be applied last
    m_opt = run_main(main, ['-f', repr(F0 / s)] + wire_args(objs) + opts + tail)
    if any(o[0] != 'w' for o in objs):
        # arcs and helices are placed by the options only (they have no coordinates to write the motion into)
        return base, m_opt, None
    objs2 = []
    for k, o in enumerate(objs):
        if tag is None or tag == k + 1:
            objs2.append(o[:2] + (tuple(ref_point(o[2], rot, tr, s)), tuple(ref_point(o[3], rot, tr, s)), o[4] * s) + tuple(o[5:]))
        else:
            objs2.append(o)
    m_co = run_main(main, ['-f', repr(F0 / s)] + wire_args(objs2) + tail)
    return base, m_opt, m_co


def fill_invariance(ck, sh, mm, gname, mname, tag=None):
    M = sh.mininec
    T = psistub.AtomTable()
    pc.install(M, T)
    objs, gnd = catalogue.spec(gname)
    move = (MOVES_GND if gnd else MOVES_FREE)[mname]
    rot, tr, s = move
    if tag is not None:
        s = 1.0
        move = (rot, tr, 1.0)

    def fn():
        c = symx.ctx()
        base, m_opt, m_co = three_models(M.main, gname, move, tag)
        V, ZL = SC.var('V'), SC.var('ZL')
        models = [m_opt] + ([m_co] if m_co is not None else []) + ([base] if tag is None else [])
        for m in models:
            if len(m.pulses) != len(base.pulses) and tag is None:
                return dict(inputs=dict(V=V, ZL=ZL), mismatch='%d pulses instead of %d' % (len(m.pulses), len(base.pulses)))
            m.sources = []
            with symx.object_arrays():
                m.register_source(M.Excitation(V), 1)
                m.register_load(M.Impedance_Load(ZL), 0)
                pc.fill(M, m)
                m.Zfill = np.array(m.Z, dtype=object)
                m.compute_impedance_matrix_loads()
                m.compute_rhs()
        if m_co is not None and len(m_opt.pulses) != len(m_co.pulses):
            return dict(inputs=dict(V=V, ZL=ZL), mismatch='options give %d pulses, coordinates %d' % (len(m_opt.pulses), len(m_co.pulses)))
        for a in pc.additivity_axioms(T):
            c.axiom(a)
        for b in T.box(1.0):
            c.assume(b)
        return dict(inputs=dict(V=V, ZL=ZL), base=base, m_opt=m_opt, m_co=m_co)

    def goals(o):
        if o.get('mismatch'):
            return [('the moved model has the pulses of the base model', z3.BoolVal(False))]
        base, m_opt, m_co = o['base'], o['m_opt'], o['m_co']
        n = len(m_opt.pulses)
        g = []
        if m_co is not None:
          g.append(('options == coordinates: same matrix', z3.And(*[pc.close_goal(m_opt.Zfill[i][j], m_co.Zfill[i][j]) for i in range(n) for j in range(n)])))
          g.append(('options == coordinates: same right-hand side and load terms', z3.And(
            *[core.eq_term(m_opt.rhs[i], m_co.rhs[i]) for i in range(n)],
            *[core.close_term(SC.lift(m_opt.Z[i][i]) - SC.lift(m_opt.Zfill[i][i]), SC.lift(m_co.Z[i][i]) - SC.lift(m_co.Zfill[i][i]), 1e-12) for i in (0,)])))
        if tag is None:
            sF = Fraction(s)
            for i in range(n):
                g.append(('s * Z_moved[%d][:] = Z_base[%d][:]' % (i, i),
                          z3.And(*[pc.close_goal(SC.lift(m_opt.Zfill[i][j]) * sF, base.Zfill[i][j]) for j in range(n)])))
            g.append(('s * rhs_moved = rhs_base for all V', z3.And(*[core.close_term(SC.lift(m_opt.rhs[i]) * sF, base.rhs[i], 1e-12) for i in range(n)])))
            g.append(('s * load term moved = load term base for all Z_L',
                      core.close_term((SC.lift(m_opt.Z[0][0]) - SC.lift(m_opt.Zfill[0][0])) * sF, SC.lift(base.Z[0][0]) - SC.lift(base.Zfill[0][0]), 1e-12)))
        return g

    def replay(conc, gn, out):
        return replay_sentence(mm, gname, move, tag)
    prove_paths(ck, 'fill-%s-%s%s' % (gname, mname, '' if tag is None else '-tag%d' % tag), fn, goals, replay, max_paths=2,
                timeout_ms=30000 if ck.tier == 'quick' else 120000, twin_timeout_ms=20000)
    ck.bounds.setdefault('fill', []).append('%s moved by %s%s: %d integral atoms' % (gname, move, '' if tag is None else ' (object %d only)' % tag, len(T.atoms)))


def mixed_tag(ck, sh, mm, gname):
    """A part is put in place by a per-tag translation (key 1), then the WHOLE antenna is rotated (key 2) and translated
    (key 3): the options (given in scrambled order) must build the model whose coordinates the reference computes by
    applying the transformations strictly in key order, whatever their tags."""
    M = sh.mininec
    T = psistub.AtomTable()
    pc.install(M, T)
    t_tag, rot, t_all = (0.3, -0.2, 0.45), (30.0, 40.0, 50.0), (12.5, -7.0, 3.25)

    def models(main):
        objs, gnd = catalogue.spec(gname)
        if gnd:
            raise symx.HarnessError('mixed_tag: free-space members only')
        tail = ['--excitation-pulse=1']
        opts = ['--geo-translate=3,%r,%r,%r' % t_all, '--geo-translate=1,%r,%r,%r,2' % t_tag, '--geo-rotate=2,%r,%r,%r' % rot]
        m_opt = run_main(main, ['-f', repr(F0)] + wire_args(objs) + opts + tail)
        R = rot_matrix(rot)
        objs2 = []
        for k, o in enumerate(objs):
            sh_ = np.asarray(t_tag) if k == 1 else np.zeros(3)
            f = lambda p: tuple(R @ (np.asarray(p, dtype=float) + sh_) + np.asarray(t_all))
            objs2.append(o[:2] + (f(o[2]), f(o[3])) + o[4:])
        m_co = run_main(main, ['-f', repr(F0)] + wire_args(objs2) + tail)
        return m_opt, m_co

    def fn():
        c = symx.ctx()
        m_opt, m_co = models(M.main)
        if len(m_opt.pulses) != len(m_co.pulses):
            return dict(inputs={}, mismatch='options give %d pulses, coordinates %d' % (len(m_opt.pulses), len(m_co.pulses)))
        pts = max(float(np.abs(np.asarray(a.point, dtype=float) - np.asarray(b.point, dtype=float)).max()) for a, b in zip(m_opt.pulses, m_co.pulses))
        for m in (m_opt, m_co):
            pc.fill(M, m)
        for a in pc.additivity_axioms(T):
            c.axiom(a)
        for b in T.box(1.0):
            c.assume(b)
        return dict(inputs={}, m_opt=m_opt, m_co=m_co, pts=pts)

    def goals(o):
        if o.get('mismatch'):
            return [('options and coordinates give the same pulses', z3.BoolVal(False))]
        n = len(o['m_opt'].pulses)
        return [('every pulse sits where the transformations applied in key order put it', z3.BoolVal(o['pts'] <= 1e-9)),
                ('options == coordinates: same matrix', z3.And(*[pc.close_goal(o['m_opt'].Z[i][j], o['m_co'].Z[i][j]) for i in range(n) for j in range(n)]))]

    def replay(conc, gn, out):
        m_opt, m_co = models(mm.main)
        res = []
        for m in (m_opt, m_co):
            m.sources = []
            m.register_source(mm.Excitation(1 + 0.5j), 1)
            m.compute()
            res.append((m.sources[0].impedance, np.asarray(m.current)))
        (z1, i1), (z2, i2) = res
        cond = np.linalg.cond(np.asarray(m_co.Z, dtype=complex))
        tol = 5e-4 * max(1.0, cond / 1e3)
        if len(i1) != len(i2) or abs(z1 - z2) > tol * abs(z2) or np.abs(i1 - i2).max() > tol * np.abs(i2).max():
            return ('C05:options-vs-coordinates:mixed-tags', '%s, object 2 translated by %s (key 1), whole antenna rotated %s (key 2) and translated %s (key 3): '
                    'through the options Z = %r, with the motion written into the coordinates Z = %r' % (gname, t_tag, rot, t_all, z1, z2),
                    dict(kind='mixed-tag', geometry=gname))
        return None
    prove_paths(ck, 'mixed-tag-%s' % gname, fn, goals, replay, max_paths=2, timeout_ms=30000, twin_timeout_ms=20000)


def replay_sentence(mm, gname, move, tag=None):
    base, m_opt, m_co = three_models(mm.main, gname, move, tag)
    rot, tr, s = move
    res = []
    for m in (base, m_opt, m_co if m_co is not None else m_opt):
        m.sources = []
        m.register_source(mm.Excitation(1 + 0.5j), 1)
        m.compute()
        res.append((m.sources[0].impedance, np.asarray(m.current)))
    cond = np.linalg.cond(np.asarray(base.Z, dtype=complex))
    tol = 5e-4 * max(1.0, cond / 1e3)
    what = 'rotated %s, translated %s, scaled %g%s' % (rot, tr, s, '' if tag is None else ' (object %d only)' % tag)
    (z0, i0), (z1, i1), (z2, i2) = res
    if len(i1) != len(i2) or abs(z1 - z2) > tol * abs(z2) or np.abs(i1 - i2).max() > tol * np.abs(i2).max():
        return ('C05:options-vs-coordinates', '%s %s: through the options Z = %r, through the coordinates Z = %r' % (gname, what, z1, z2),
                dict(kind='sentence', geometry=gname, move=[list(rot), list(tr), s], tag=tag))
    if tag is None and cond <= 1e5:
        if len(i0) != len(i1) or abs(z0 - z1) > tol * abs(z0) or np.abs(i0 - i1).max() > tol * np.abs(i0).max():
            return ('C05:invariance:%s' % ('ground' if base.media is not None else 'free'),
                    '%s %s: Z = %r, unmoved %r (pulses %d / %d)' % (gname, what, z1, z0, len(i1), len(i0)),
                    dict(kind='sentence', geometry=gname, move=[list(rot), list(tr), s]))
    return None


def far_field(ck, sh, mm, gname, mname):
    """Pattern moves rigidly: rotation about Z by alpha, translation t, scale s:
       E_moved(theta, phi + alpha) = exp(j w' rhat' . s t') E_base(theta, phi) for all currents."""
    M = sh.mininec
    objs, gnd = catalogue.spec(gname)
    rot, tr, s = (MOVES_GND if gnd else MOVES_FREE)[mname]
    if rot[0] or rot[1]:
        raise symx.HarnessError('far-field clause: rotation about Z only')
    for th, ph in [(35.0, 20.0), (80.0, 250.0)]:
        def fn(th=th, ph=ph):
            base, m_opt, m_co = three_models(M.main, gname, (rot, tr, s))
            n = len(base.pulses)
            I = _box_currents(n, 1.0)
            for m in (base, m_opt):
                _set_currents(m, I)
                m.power = 1.0
            with symx.object_arrays():
                base.compute_far_field(M.Angle(th, 10.0, 1), M.Angle(ph, 10.0, 1))
                m_opt.compute_far_field(M.Angle(th, 10.0, 1), M.Angle(ph + rot[2], 10.0, 1))
            # translation phase: the moved antenna sits at s * (R p + t); direction cosines of (theta, phi + alpha)
            t_, p_ = math.radians(th), math.radians(ph + rot[2])
            rhat = np.array([math.sin(t_) * math.cos(p_), math.sin(t_) * math.sin(p_), math.cos(t_)])
            psi = float(m_opt.w) * float(rhat @ (np.asarray(tr) * s))
            phase = complex(math.cos(psi), math.sin(psi))
            at, ap = farfield.coefficients(base, th, ph)
            return dict(inputs=dict(I=I), fb=base.far_field, fm=m_opt.far_field, phase=phase, bound=sum(abs(a) for a in at + ap) * 2)

        def goals(o):
            tol = core.RV(Fraction(o['bound']) * Fraction(1, 10 ** 7) + Fraction(1, 10 ** 30))
            g = []
            for nm, a, b in (('E_theta', o['fm'].e_theta[0][0], o['fb'].e_theta[0][0]), ('E_phi', o['fm'].e_phi[0][0], o['fb'].e_phi[0][0])):
                d = SC.lift(a) - SC.lift(b) * o['phase']
                g.append(('%s moves rigidly with the antenna' % nm,
                          z3.And(d.re.n <= tol * d.re.den, d.re.n >= -tol * d.re.den, d.im.n <= tol * d.im.den, d.im.n >= -tol * d.im.den)))
            return g

        def replay(conc, gn, out, th=th, ph=ph):
            base, m_opt, m_co = three_models(mm.main, gname, (rot, tr, s))
            I = np.array([complex(v) for v in conc['I']])
            for m in (base, m_opt):
                m.current, m.power = I, 1.0
            base.compute_far_field(mm.Angle(5.0, 10.0, 9), mm.Angle(0.0, 30.0, 12))
            m_opt.compute_far_field(mm.Angle(5.0, 10.0, 9), mm.Angle(rot[2], 30.0, 12))
            g0, g1 = base.far_field.gain[..., 2], m_opt.far_field.gain[..., 2]
            ok = g0 > g0.max() - 40
            if np.abs(g0 - g1)[ok].max() <= 0.01:
                return None
            return ('C05:pattern', '%s: the gain pattern does not move rigidly with the antenna (%.3f dB)' % (gname, np.abs(g0 - g1)[ok].max()),
                    dict(kind='pattern', geometry=gname))
        prove_paths(ck, 'far-%s-%s-%g-%g' % (gname, mname, th, ph), fn, goals, replay, max_paths=8, fork_policy='assume',
                    twin_timeout_ms=1000, prefer_true=('compute_far_field',))


# -- (B) symbolic scale / translation / rotation about Z in the geometry stage ------------------------------

FRAMES = {
    # two wires whose facing ends are `gap` apart (in units of the segment length L = 0.25), plus a joined third wire
    'near-miss': [((0.0, 0.0, 1.0), (1.0, 0.0, 1.0), 4), ((1.0, 0.1, 1.0), (1.0, 1.0, 1.3), 4), ((0.0, 0.0, 1.0), (-0.4, 0.7, 1.2), 3)],
    'fuzzy-join': [((0.0, 0.0, 1.0), (1.0, 0.0, 1.0), 4), ((1.0, 0.0001, 1.0), (1.0, 1.0, 1.3), 4)],
    'just-apart': [((0.0, 0.0, 1.0), (1.0, 0.0, 1.0), 4), ((1.0, 0.0005, 1.0), (1.0, 1.0, 1.3), 4)],
    'grounded': [((0.3, 0.2, 0.0), (0.5, 0.1, 1.0), 4), ((0.5, 0.1, 1.0), (1.5, 0.3, 1.1), 4), ((2.0, 0.0, 0.0001), (2.0, 0.5, 1.0), 4)],
    # free space: a junction 0.0002 m above the height 0 (closer than 1/1000 segment: over ground it would count as grounded)
    'low-junction': [((0.0, 0.0, 1.0), (1.0, 0.0, 0.0002), 4), ((1.0, 0.0, 0.0002), (1.8, -0.3, 1.0), 4)],
}


def _const_of(x):
    """float if the term is a constant (after simplification), else None"""
    if not symx.is_sym(x):
        return float(x)
    x = SR.lift(x)
    if getattr(x, 'd', None) is not None:
        return None
    n = z3.simplify(x.n)
    if z3.is_rational_value(n) or z3.is_algebraic_value(n):
        return float(n.as_fraction()) if z3.is_rational_value(n) else None
    return None


def topology(ck, sh, mm, fname, kind):
    M = sh.mininec
    frame = FRAMES[fname]
    gnd = fname == 'grounded'

    def params():
        c = symx.ctx()
        if kind == 'scale':
            s = pos('s', 0.01, 100)
            return dict(s=s), (lambda p: [x * s for x in p]), s
        if kind == 'translate':
            t = [SR.var('t%s' % a) for a in 'xyz']
            for v in t:
                c.assume(z3.And(v.n >= -1e4, v.n <= 1e4))
            if gnd:
                t[2] = 0.0
            return dict(t=[v for v in t if symx.is_sym(v)]), (lambda p: [x + v for x, v in zip(p, t)]), 1.0
        cs, sn = SR.var('cos'), SR.var('sin')
        c.assume((cs * cs + sn * sn == 1).t)
        return dict(cs=cs, sn=sn), (lambda p: [p[0] * cs - p[1] * sn, p[0] * sn + p[1] * cs, p[2]]), 1.0

    def fn():
        inp, f, s = params()
        geo = []
        with symx.object_arrays():
            for p1, p2, n in frame:
                geo.append(M.Wire(n, *f(p1), *f(p2), 0.002 * s))
            m = M.Mininec(F0, geo, media=[M.Medium(0, 0)] if gnd else None)
        shape = None
        if kind == 'translate':
            # where every pulse sits relative to the translation: a constant vector, whatever the translation is
            tv = list(inp['t']) + ([0.0] if gnd else [])
            shape = []
            for p in m.pulses:
                for x, v in zip(p.point, tv):
                    shape.append(x - v)
        return dict(inputs=inp, n=len(m.pulses), ground=[tuple(bool(x) for x in g.is_ground) for g in m.geo], shape=shape)

    paths = symx.explore(fn, max_paths=40, query_timeout_ms=10000 if ck.tier == 'quick' else 60000, sqrt_mode='fresh')
    ck.account(paths)
    name = 'topology-%s-%s' % (fname, kind)
    outcomes = {}
    forced_model = {}
    for p in paths:
        if p.exc is not None:
            key = 'exception %s' % type(p.exc).__name__
        else:
            key = 'pulses=%d ground=%s' % (p.value['n'], p.value['ground'])
        s_ = z3.Solver()
        s_.set('timeout', 20000)
        s_.add(p.pc + p.axioms)
        r = str(s_.check())
        ck.queries += 1
        if r == 'unsat':
            continue
        if p.exc is None and p.value.get('shape') and r == 'sat':
            # where the pulses sit relative to the translation: the values in one model, and the question whether any other value of the
            # translation on this path gives other ones
            mdl = s_.model()
            vals = [core.model_value(mdl, x) if symx.is_sym(x) else float(x) for x in p.value['shape']]
            s2 = z3.Solver()
            s2.set('timeout', 20000)
            s2.add(p.pc + p.axioms)
            dif = []
            for x, v in zip(p.value['shape'], vals):
                if symx.is_sym(x):
                    d = SR.lift(x) - float(v)
                    dif += [(d > 1e-9).t, (d < -1e-9).t]
            s2.add(z3.Or(*dif) if dif else z3.BoolVal(False))
            r2 = str(s2.check())
            ck.queries += 1
            if r2 == 'sat':
                # the value of the translation that moves a pulse furthest from its place (coarse search: the consequence for the
                # impedance is what the replay evaluates)
                best = s2.model()
                for thr in (1e-3, 5e-4, 2e-4, 1e-4, 1e-5):
                    s3 = z3.Solver()
                    s3.set('timeout', 20000)
                    s3.add(p.pc + p.axioms)
                    big = []
                    for x, v in zip(p.value['shape'], vals):
                        if symx.is_sym(x):
                            d = SR.lift(x) - float(v)
                            big += [(d > thr).t, (d < -thr).t]
                    s3.add(z3.Or(*big))
                    ck.queries += 1
                    if str(s3.check()) == 'sat':
                        best = s3.model()
                        break
                forced_model[id(p)] = best
            key += ' pulse-points=' + ('fixed:%s' % (tuple(round(float(v), 7) for v in vals),) if r2 == 'unsat' else 'depend-on-the-translation' if r2 == 'sat' else 'undecided')
        outcomes.setdefault(key, []).append((p, r, forced_model.get(id(p)) or (s_.model() if r == 'sat' else None)))
    ck.twin(name, len(outcomes) >= 1)
    if len(outcomes) == 1 and not paths.truncated:
        ck.record(name + '/one outcome for every value of the parameter', 'discharged',
                  sample=dict(obligation=name, symbolic_inputs=[kind], assertion='pulse count and ground flags do not depend on the parameter',
                              verdict='unsat', outcome=list(outcomes)[0], paths=len(paths)))
        return
    # more than one outcome: realise one parameter value per outcome and replay
    concs = []
    for key, lst in outcomes.items():
        for p, r, mdl in lst:
            if mdl is not None and p.value is not None:
                concs.append((key, {k: ([core.model_value(mdl, e) for e in v] if isinstance(v, list) else core.model_value(mdl, v))
                                    for k, v in p.value['inputs'].items()}))
                break
    res = replay_topology(mm, fname, kind, concs)
    if res is None:
        ck.record(name + '/one outcome for every value of the parameter', 'inconclusive' if any(r != 'sat' for l in outcomes.values() for _, r, _ in l) else 'spurious',
                  detail=dict(outcomes=list(outcomes)))
    else:
        v = ck.report_violation(res[0], res[1], res[2])
        ck.record(name + '/one outcome for every value of the parameter', v, detail=res[1])


def replay_topology(mm, fname, kind, concs):
    frame = FRAMES[fname]
    gnd = fname == 'grounded'
    seen = {}
    for key, c in concs:
        if kind == 'scale':
            s = float(c['s'])
            f = lambda p: [x * s for x in p]
        elif kind == 'translate':
            t = [float(v) for v in c['t']] + ([0.0] if gnd else [])
            s = 1.0
            f = lambda p: [x + v for x, v in zip(p, t)]
        else:
            cs, sn = float(c['cs']), float(c['sn'])
            s = 1.0
            f = lambda p: [p[0] * cs - p[1] * sn, p[0] * sn + p[1] * cs, p[2]]
        try:
            m = mm.Mininec(F0 / s, [mm.Wire(n, *f(p1), *f(p2), 0.002 * s) for p1, p2, n in frame], media=[mm.Medium(0, 0)] if gnd else None)
            m.register_source(mm.Excitation(1.0), 1)
            m.compute()
            out = 'pulses=%d Z=%.7g%+.7gj' % (len(m.pulses), m.sources[0].impedance.real, m.sources[0].impedance.imag)
        except Exception as e:
            out = 'exception %s' % type(e).__name__
        seen[out] = c
    if len({k.split()[0] for k in seen}) <= 1:
        # same number of unknowns everywhere: the property's sentence on the impedances (5e-4)
        zs = []
        for k in seen:
            try:
                zs.append(complex(k.split('Z=')[1]))
            except (IndexError, ValueError):
                return None
        if all(abs(z - zs[0]) <= 5e-4 * abs(zs[0]) for z in zs):
            return None
    return ('C05:topology:%s:%s' % (kind, fname), 'frame %s: which wire ends are joined / grounded / where the pulses sit depends on the %s: %s'
            % (fname, kind, {k: v for k, v in seen.items()}), dict(kind='topology', frame=fname, by=kind))


def main(args):
    ck = Check('C05', args)
    ck.shadow_stats = symx.load().stats
    if ck.tier == 'quick':
        parts = [('fill_invariance', ('G2', 'far-generic')), ('fill_invariance', ('G5', 'right-angles')), ('fill_invariance', ('G4', 'x-then-y')),
                 ('fill_invariance', ('G9', 'z-far')), ('fill_invariance', ('G8', 'z-right')), ('fill_invariance', ('G28', 'z-quarter')), ('fill_invariance', ('G30', 'far-generic')), ('fill_invariance', ('G12', 'right-angles')), ('fill_invariance', ('G11', 'far-generic')), ('fill_invariance', ('G21', 'right-angles')), ('fill_invariance', ('G2', 'two-scales')), ('fill_invariance', ('G2', 'z-only', 2)),
                 ('far_field', ('G2', 'z-only')), ('far_field', ('G9', 'z-far')), ('mixed_tag', ('G2',)), ('mixed_tag', ('G5',))]
        parts += [('topology', (f, k)) for f in ('near-miss', 'fuzzy-join', 'just-apart', 'grounded') for k in ('scale',)]
        parts += [('topology', ('fuzzy-join', 'translate')), ('topology', ('grounded', 'translate')), ('topology', ('just-apart', 'rotate')), ('topology', ('low-junction', 'translate')), ('topology', ('low-junction', 'scale'))]
    else:
        parts = [('fill_invariance', (g, mv)) for g in ('G1', 'G2', 'G3', 'G4', 'G5', 'G6', 'G11') for mv in MOVES_FREE]
        parts += [('fill_invariance', (g, mv)) for g in ('G7', 'G8', 'G9', 'G10', 'G14', 'G16', 'G28') for mv in MOVES_GND]
        parts += [('fill_invariance', ('G2', mv, 2)) for mv in MOVES_FREE] + [('fill_invariance', ('G5', 'z-only', 3))]
        parts += [('fill_invariance', (g, mv)) for g in ('G12', 'G13', 'G30') for mv in ('far-generic', 'right-angles', 'x-then-y')]
        parts += [('far_field', (g, 'z-only')) for g in ('G1', 'G2', 'G5')] + [('far_field', (g, mv)) for g in ('G8', 'G9') for mv in MOVES_GND]
        parts += [('topology', (f, k)) for f in FRAMES for k in ('scale', 'translate', 'rotate')]
        parts += [('mixed_tag', (g,)) for g in ('G2', 'G3', 'G5', 'G6')]
    run_parallel(ck, 'checks.c05', parts)
    ck.assumptions += ['fill clause: catalogue members moved by the listed concrete transformations %s / %s (rotation degrees about x,y,z; '
                       'translation in metres at 10 m wavelength; scale); integrals unknown, V, Z_L, currents arbitrary' % (MOVES_FREE, MOVES_GND),
                       'topology clause: scale in [0.01,100], translation in [-1e4,1e4]^3 (horizontal over ground), rotation about Z by any angle, '
                       'all symbolic; frames %s' % sorted(FRAMES)]
    ck.stubs += ['Mininec.fast_quad -> psi-atom stub shared by the three models', 'np.linalg.norm exact (sqrt by its defining equation) in the topology clause']
    ck.outside += ['rounding for translations of many wavelengths (the 5e-4 clause; replays only)', 'rotations other than about Z for the far-field table',
                   'arcs and helices', 'transformations other than the listed ones in the fill clause']
    return ck.finish('Three models from the real main() (base, moved through options, moved through coordinates) filled over one table of '
                     'unknown integrals: invariance and options == coordinates decided by z3 for all values; topology decisions of __init__ '
                     'explored with symbolic scale / translation / rotation.')


if __name__ == '__main__':
    run_check('C05', main)
