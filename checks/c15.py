"""C15 -- the option file written for a model reproduces that model when read back.

main(argv) runs on argument lists whose numeric fields are solver variables (token text parsed by
the shadow float/int/complex that argparse calls), Mininec.as_cmdline writes the option text
(printf tokens that fork on the sign, so malformed text such as '+-3j' is visible), the text is
split into arguments and fed to main again; z3 decides for all values that the second model equals
the first field by field within the printed precision.
"""
import io
import re
import contextlib
import itertools
from fractions import Fraction
import z3
import numpy as np

from .common import Check, run_check, prove_paths, close, run_parallel
import symx
from symx import SR, SC, SI, core, npf, tokens
from .c08 import pos

W1 = '3,0,0,0,1.5,0.3,0.2,0.002'
W2 = '2,1.5,0.3,0.2,1.7,1.2,0.9,0.004'
W3 = '2,1.7,1.2,0.9,2.6,1.4,1.9,0.003'
WG = '4,0,0,0,0,0,2,0.002'


def _spec(c, name, kind, lo=None, hi=None):
    if kind == 'r':
        v = SR.var(name)
        if lo is not None:
            c.assume(v.n >= core.RV(lo))
        if hi is not None:
            c.assume(v.n <= core.RV(hi))
        return v
    if kind == 'c':
        v = SC.var(name)
        c.assume(z3.And(v.nr >= -1e6, v.nr <= 1e6, v.ni >= -1e6, v.ni <= 1e6))
        return v
    if kind == 'i':
        v = SI.var(name)
        c.assume(z3.And(v.t >= lo, v.t <= hi))
        return v
    raise ValueError(kind)


def N(x):
    """text of one real/int argument value"""
    if symx.is_sym(x):
        return tokens.exact(x)
    if isinstance(x, int):
        return str(x)
    return repr(float(x))


def C(z):
    if isinstance(z, SC):
        return '%s+%sj' % (tokens.exact(z.re), tokens.exact(z.im))
    return repr(complex(z)).strip('()')


# template name -> (variables {name: (kind, lo, hi)}, builder(values) -> argv, load_by_geo, extra constraints)
TEMPLATES = {
    'sources+load': (
        dict(f=('r', 1, 100), V1=('c',), V2=('c',), Z=('c',)),
        lambda v: ['-f', N(v['f']), '-w', W1, '-w', W2, '--excitation-pulse=2', '--excitation-pulse=4',
                   '--excitation-voltage=' + C(v['V1']), '--excitation-voltage=' + C(v['V2']),
                   '--load=' + C(v['Z']), '--attach-load=1,3'], False,
        lambda c, v: [z3.Or(v['V1'].nr != 0, v['V1'].ni != 0), z3.Or(v['V2'].nr != 0, v['V2'].ni != 0)]),
    'source-1V-neighbour': (
        dict(f=('r', 1, 100), V1=('c',), Z=('c',)),
        lambda v: ['-f', N(v['f']), '-w', W1, '-w', W2, '--excitation-pulse=2', '--excitation-pulse=4',
                   '--excitation-voltage=' + C(v['V1']), '--excitation-voltage=1',
                   '--load=' + C(v['Z']), '--attach-load=1,3'], False,
        lambda c, v: [z3.Or(v['V1'].nr != 0, v['V1'].ni != 0)]),
    'tags+taper+bygeo': (
        dict(f=('r', 1, 100), t1=('i', 1, 30), t2=('i', 1, 30), Z=('c',), tmin=('r', 0.01, 0.05), tmax=('r', 1.2, 2.0)),
        lambda v: ['-f', N(v['f']), '-w', N(v['t1']) + ',' + W1, '-w', N(v['t2']) + ',4,1.5,0.3,0.2,4.7,2.2,2.9,0.004',
                   '--taper-wire=%s,1,%s,%s' % (N(v['t2']), N(v['tmin']), N(v['tmax'])),
                   '--excitation-pulse=1,%s' % N(v['t1']), '--load=' + C(v['Z']), '--attach-load=1,2,%s' % N(v['t2'])], True,
        lambda c, v: [v['t1'].t != v['t2'].t]),
    'skin-per-tag': (
        dict(f=('r', 1, 100), s1=('r', 1e3, 1e9), s2=('r', 1e3, 1e9)),
        lambda v: ['-f', N(v['f']), '-w', W1, '-w', W2, '--excitation-pulse=2',
                   '--skin-effect-conductivity=%s,1' % N(v['s1']), '--skin-effect-conductivity=%s,2' % N(v['s2'])], False,
        lambda c, v: []),
    'skin-all+ins': (
        dict(f=('r', 1, 100), s1=('r', 1e3, 1e9), ir=('r', 0.005, 0.02), eps=('r', 1.5, 10)),
        lambda v: ['-f', N(v['f']), '-w', W1, '-w', W2, '--excitation-pulse=2',
                   '--skin-effect-resistivity=%s' % N(v['s1']), '--insulation-load=%s,%s,2' % (N(v['ir']), N(v['eps']))], False,
        lambda c, v: []),
    'rlc+trap+laplace': (
        dict(f=('r', 1, 100), R=('r', 1e-3, 1e6), L=('r', 1e-9, 1e-3), Cc=('r', 1e-13, 1e-6), b0=('r', -10, 10), b1=('r', -10, 10),
             a0=('r', 0.1, 10), a1=('r', -10, 10)),
        lambda v: ['-f', N(v['f']), '-w', W1, '-w', W2, '--excitation-pulse=2',
                   '--rlc-load=%s,%s,%s' % (N(v['R']), N(v['L']), N(v['Cc'])), '--rlc-load=%s,,' % N(v['R']),
                   '--trap-load=%s,%s,%s' % (N(v['R']), N(v['L']), N(v['Cc'])),
                   '--laplace-load-a=%s,%s' % (N(v['a0']), N(v['a1'])), '--laplace-load-b=%s,%s' % (N(v['b0']), N(v['b1'])),
                   '--attach-load=1,1', '--attach-load=2,all,2', '--attach-load=3,all', '--attach-load=4,3'], False,
        lambda c, v: []),
    'mixed-loads-out-of-order': (
        # lumped loads of different kinds, attached in another order than the parser's numbering (--load, --rlc-load, --trap-load, Laplace)
        dict(f=('r', 1, 100), Z=('c',), R=('r', 1e-3, 1e6), L=('r', 1e-9, 1e-3), Cc=('r', 1e-13, 1e-6), b0=('r', -10, 10), a0=('r', 0.1, 10)),
        lambda v: ['-f', N(v['f']), '-w', W1, '-w', W2, '--excitation-pulse=2', '--load=' + C(v['Z']),
                   '--rlc-load=%s,%s,%s' % (N(v['R']), N(v['L']), N(v['Cc'])), '--trap-load=%s,%s,%s' % (N(v['R']), N(v['L']), N(v['Cc'])),
                   '--laplace-load-a=%s,1' % N(v['a0']), '--laplace-load-b=%s,2' % N(v['b0']),
                   '--attach-load=4,1', '--attach-load=2,3', '--attach-load=1,4', '--attach-load=3,all,2'], False,
        lambda c, v: []),
    'repeated-attachment': (
        # the same load attached more than once to a pulse (it is then in series that many times): whole object + one of its pulses,
        # whole antenna + one pulse, the same whole-object attachment twice
        dict(f=('r', 1, 100), Z=('c',), R=('r', 1e-3, 1e6), L=('r', 1e-9, 1e-3)),
        lambda v: ['-f', N(v['f']), '-w', W1, '-w', W2, '--excitation-pulse=2', '--load=' + C(v['Z']),
                   '--rlc-load=%s,%s,' % (N(v['R']), N(v['L'])), '--load=' + C(v['Z']),
                   '--attach-load=1,all,2', '--attach-load=1,1,2', '--attach-load=3,all', '--attach-load=3,3',
                   '--attach-load=2,all,1', '--attach-load=2,all,1'], False,
        lambda c, v: []),
    'scaled-objects': (
        # a helix, an arc and a wire, scaled as a whole and per tag: the written radius / dimensions are the ENTERED ones (the scale
        # options are written too); transformations are really applied here (not stubbed as in 'transforms')
        dict(f=('r', 1, 100), s1=('r', 0.05, 20), s2=('r', 0.05, 20)),
        lambda v: ['-f', N(v['f']), '--helix=3,0.1,0.5,0.002,0.2,0.2', '-a', '3,1.0,10,130,0.002', '-w', '2,5,5,5,6,5.5,5.2,0.003',
                   '--excitation-pulse=1', '--geo-scale=%s' % N(v['s1']), '--geo-scale=%s,2' % N(v['s2'])], False,
        lambda c, v: []),
    'media': (
        dict(f=('r', 1, 100), e1=('r', 1, 80), g1=('r', 1e-4, 10), e2=('r', 1, 80), g2=('r', 1e-4, 10), h2=('r', -10, 10),
             u1=('r', 1, 1000), rr=('r', 1e-4, 0.01)),
        lambda v: ['-f', N(v['f']), '-w', WG, '--excitation-pulse=1', '--medium=%s,%s,0,%s' % (N(v['e1']), N(v['g1']), N(v['u1'])),
                   '--medium=%s,%s,%s' % (N(v['e2']), N(v['g2']), N(v['h2'])), '--boundary=circular', '--radial-count=8',
                   '--radial-radius=%s' % N(v['rr'])], False,
        lambda c, v: []),
    'media3': (
        dict(f=('r', 1, 100), e1=('r', 1, 80), g1=('r', 1e-4, 10), e2=('r', 1, 80), g2=('r', 1e-4, 10), h2=('r', -10, 10),
             e3=('r', 1, 80), g3=('r', 1e-4, 10), h3=('r', -10, 10), u1=('r', 1, 100), u2=('r', 100, 1000)),
        lambda v: ['-f', N(v['f']), '-w', WG, '--excitation-pulse=1', '--medium=%s,%s,0,%s' % (N(v['e1']), N(v['g1']), N(v['u1'])),
                   '--medium=%s,%s,%s,%s' % (N(v['e2']), N(v['g2']), N(v['h2']), N(v['u2'])),
                   '--medium=%s,%s,%s' % (N(v['e3']), N(v['g3']), N(v['h3']))], False,
        lambda c, v: []),
    'transforms': (
        dict(f=('r', 1, 100), rx=('r', -180, 180), rz=('r', -180, 180), tx=('r', -30, 30), ty=('r', -30, 30), tz=('r', -30, 30),
             sc=('r', 0.1, 10), k1=('r', 0, 5), k2=('r', 0, 5)),
        lambda v: ['-f', N(v['f']), '-w', W1, '-w', W2, '-a', '4,1.0,10,130,0.002', '--excitation-pulse=2',
                   '--geo-rotate=%s,%s,0,%s' % (N(v['k2']), N(v['rx']), N(v['rz'])),
                   '--geo-translate=%s,%s,%s,%s,3' % (N(v['k1']), N(v['tx']), N(v['ty']), N(v['tz'])),
                   '--geo-scale=%s' % N(v['sc']), '--geo-scale=%s,2' % N(v['sc'])], False,
        lambda c, v: []),
    # two rotations of one object with the SAME sort key about different axes (applied in the order given; rotations do not commute),
    # followed by a translation with that key as well
    'equal-key-rotations': (
        dict(f=('r', 1, 100), rx=('r', 10, 180), rz=('r', 10, 180), k=('r', 0, 5), tx=('r', -30, 30)),
        lambda v: ['-f', N(v['f']), '-w', W1, '-w', W2, '--excitation-pulse=2',
                   '--geo-rotate=%s,%s,0,0,2' % (N(v['k']), N(v['rx'])), '--geo-rotate=%s,0,0,%s,2' % (N(v['k']), N(v['rz'])),
                   '--geo-translate=%s,%s,0,0,2' % (N(v['k']), N(v['tx']))], False,
        lambda c, v: []),
}


def _equal_pieces(p1, p2, n, r, min_t=0, max_t=None, end=0):
    """stand-in for taper1/taper2 in this check: n equal pieces (the limits are carried by the model,
    not by the segmentation)"""
    for i in range(n):
        yield (p1 + (p2 - p1) * (i / n), p1 + (p2 - p1) * ((i + 1) / n) if i < n - 1 else p2)


def opt_argv(text):
    argv = []
    for ln in text.split('\n'):
        ln = ln.strip()
        if not ln:
            continue
        # an option file is read as the whitespace-separated words of all its lines (test/test_mininec.py read_pym; README)
        argv.extend(w for w in ln.split() if w)
    return argv


def run_main(main, argv):
    """-> (model or None, diagnostic)"""
    err, out = io.StringIO(), io.StringIO()
    try:
        with contextlib.redirect_stdout(out), contextlib.redirect_stderr(err):
            m = main(list(argv), f_err=err, return_mininec=True)
    except SystemExit as e:
        return None, 'usage error: ' + err.getvalue().strip().split('\n')[-1]
    if hasattr(m, 'as_cmdline'):
        return m, ''
    return None, 'rc=%r: %s' % (m, (err.getvalue() + out.getvalue()).strip())


def signature(m):
    """Comparable description of a model (objects by tag, sources, loads by pulses, media)."""
    sig = []
    for g in sorted(m.geo, key=lambda g: (g.tag if not symx.is_sym(g.tag) else 0)):
        if hasattr(g, 'endp_unscaled'):
            par = list(np.asarray(g.endp_unscaled).reshape(-1))
        elif hasattr(g, 'ang1'):
            par = [g.radius, g.ang1, g.ang2]
        else:
            par = [g.length, g.turnlen, g.rx1, g.ry1, g.rx2, g.ry2]
        sig.append(('object', type(g).__name__, g.tag, g.n_segments, g.r_unscaled, getattr(g, 'segtype', 0),
                    getattr(g, 'taper_min', None), getattr(g, 'taper_max', None), *par))
    for key, kind, vec, tag in m.geo.transforms:
        sig.append(('transform', kind, key, tag, *vec))
    for fac, tag in m.geo.scales:
        sig.append(('scale', tag, fac))
    for s in m.sources:
        sig.append(('source', s.idx, s.voltage))
    for l in sorted(m.loads, key=lambda l: (type(l).__name__, sorted(p.idx for p in l.pulses))):
        cls = type(l).__name__
        if cls == 'Impedance_Load':
            par = [l._impedance]
        elif cls in ('Series_RLC_Load', 'Trap_Load'):
            par = [l.r, l.l, l.c]
        elif cls == 'Laplace_Load':
            par = list(l.a) + list(l.b)
        elif cls == 'Skin_Effect_Load':
            par = [l.conductivity, l.geobj.tag]
        elif cls == 'Insulation_Load':
            par = [l.radius, l.epsilon_r, l.geobj.tag]
        else:
            par = []
        sig.append(('load', cls, tuple(sorted(p.idx for p in l.pulses)), *par))
    for md in (m.media or ()):
        sig.append(('medium', md.permittivity, md.conductivity, md.height, md.coord if md.next is not None else None,
                    md.boundary if md.next is not None or md.prev is not None else None, md.nradials, md.radius))
    sig.append(('f', m.f))
    return sig


def _close_term(a, b):
    """z3 Bool: a and b agree to the printed precision (1e-5 relative, 1e-12 absolute)."""
    if a is None or b is None:
        return z3.BoolVal(a is None and b is None)
    if isinstance(a, (str, tuple)) or isinstance(b, (str, tuple)):
        return z3.BoolVal(a == b)
    if isinstance(a, (SC, complex)) or isinstance(b, (SC, complex)):
        a, b = SC.lift(a), SC.lift(b)
        return z3.And(_close_term(a.re, b.re), _close_term(a.im, b.im))
    if isinstance(a, SI) or isinstance(b, SI):
        return (SI.lift(a) == b).t if isinstance(a, SI) else (b == a).t
    if not symx.is_sym(a) and not symx.is_sym(b):
        return z3.BoolVal(close(float(a), float(b), 1e-5, 1e-12))
    a, b = SR.lift(a), SR.lift(b)
    d = abs(a - b)
    return z3.Or((d <= abs(a) * Fraction(1, 10 ** 5)).t, (d <= Fraction(1, 10 ** 12)).t)


def roundtrip(ck, sh, mm, tname):
    M = sh.mininec
    spec, build, by_geo, extra = TEMPLATES[tname]

    def fn():
        c = symx.ctx()
        v = {k: _spec(c, k, *s) for k, s in spec.items()}
        for e in extra(c, v):
            c.assume(e)
        argv = build(v)
        old = (M.taper1, M.taper2)
        M.taper1 = M.taper2 = _equal_pieces      # segmentation itself is C13's subject
        saved = []
        if tname in ('transforms', 'equal-key-rotations'):
            # the geometric effect of transformations is C13/C05; here the RECORDS must round-trip
            for cls in (M.Wire, M.Curve):
                for meth in ('rotate', 'translate', 'scale'):
                    saved.append((cls, meth, getattr(cls, meth)))
                    setattr(cls, meth, lambda self, *a: None)
        try:
            return _rt(argv, v)
        finally:
            M.taper1, M.taper2 = old
            for cls, meth, fnc in saved:
                setattr(cls, meth, fnc)

    def _rt(argv, v):
        with symx.object_arrays():
            m1, d1 = run_main(M.main, argv)
            if m1 is None:
                return dict(inputs=v, stage='first', diag=d1)
            text = m1.as_cmdline(load_by_geo=by_geo)
            m2, d2 = run_main(M.main, opt_argv(text))
            if m2 is None:
                return dict(inputs=v, stage='second', diag=d2, text=text)
            text2 = m2.as_cmdline(load_by_geo=by_geo)
        return dict(inputs=v, stage='ok', s1=signature(m1), s2=signature(m2), text=text, text2=text2)

    def goals(o):
        if o['stage'] == 'first':
            return []                   # the template itself was refused for these values: not a C15 matter
        if o['stage'] == 'second':
            return [('the written option list is accepted', z3.BoolVal(False))]
        g = [('same number of model items', z3.BoolVal(len(o['s1']) == len(o['s2'])))]
        for a, b in zip(o['s1'], o['s2']):
            nm = '%s %s' % (a[0], a[1] if a[0] in ('object', 'load', 'transform') else '')
            ok = [z3.BoolVal(len(a) == len(b) and a[0] == b[0])]
            ok += [_close_term(x, y) for x, y in zip(a[1:], b[1:])]
            g.append(('same %s' % nm.strip(), z3.And(*ok)))
        pat = lambda t: sorted(tokens.PH.sub('#', ln) for ln in t.split('\n') if ln.strip())
        g.append(('options of the re-read model are the same set', z3.BoolVal(pat(o['text']) == pat(o['text2']))))
        return g

    def replay(c, gname, out):
        return replay_roundtrip(mm, tname, c)
    prove_paths(ck, 'roundtrip-%s' % tname, fn, goals, replay, max_paths=512,
                timeout_ms=10000 if ck.tier == 'quick' else 60000)
    ck.bounds.setdefault('templates', []).append(tname)


def _key_from(diag):
    d = re.sub(r'[-+]?\d+\.?\d*(?:[eE][-+]?\d+)?', '#', diag)
    return d[:70]


def replay_roundtrip(mm, tname, c):
    spec, build, by_geo, extra = TEMPLATES[tname]
    v = {}
    for k, s in spec.items():
        x = c[k]
        v[k] = int(x) if s[0] == 'i' else (complex(x) if s[0] == 'c' else float(x))
    argv = build(v)
    m1, d1 = run_main(mm.main, argv)
    rd = dict(kind='roundtrip', template=tname, argv=argv)
    if m1 is None:
        return None
    text = m1.as_cmdline(load_by_geo=by_geo)
    m2, d2 = run_main(mm.main, opt_argv(text))
    if m2 is None:
        bad = [ln for ln in text.split('\n') if '+-' in ln]
        key = 'C15:rejected:' + ('load:+-imaginary' if bad else _key_from(d2))
        return (key, 'option file written for %s is refused (%s); text: %s' % (' '.join(argv), d2, text.replace('\n', ' | ')), rd)
    s1, s2 = signature(m1), signature(m2)
    if len(s1) != len(s2):
        kinds1 = [x[0:2] for x in s1]
        kinds2 = [x[0:2] for x in s2]
        miss = [k for k in kinds1 if k not in kinds2] or [k for k in kinds2 if k not in kinds1] or ['count']
        return ('C15:differs:missing:%s' % (miss[0],), 're-read model has %d items instead of %d (%s); options: %s'
                % (len(s2), len(s1), miss, text.replace('\n', ' | ')), rd)
    for a, b in zip(s1, s2):
        same = len(a) == len(b)
        if same:
            for x, y in zip(a, b):
                if isinstance(x, (str, tuple)) or x is None or y is None:
                    same = same and x == y
                elif isinstance(x, (complex, np.complexfloating)):
                    same = same and abs(x - y) <= 1e-5 * abs(x) + 1e-12
                else:
                    same = same and close(float(x), float(y), 1e-5, 1e-12)
        if not same:
            return ('C15:differs:%s:%s' % (a[0], a[1] if a[0] in ('object', 'load', 'transform') else ''),
                    'model item %r is read back as %r; options: %s' % (a, b, text.replace('\n', ' | ')), rd)
    t2 = m2.as_cmdline(load_by_geo=by_geo)
    if sorted(text.split('\n')) != sorted(t2.split('\n')):
        # numeric text may differ in the last printed digit only if values differ: already compared
        pass
    return None


def main(args):
    ck = Check('C15', args)
    ck.shadow_stats = symx.load().stats
    names = list(TEMPLATES) if ck.tier == 'thorough' else ['source-1V-neighbour', 'tags+taper+bygeo', 'skin-per-tag', 'rlc+trap+laplace',
                                                         'media', 'media3', 'transforms', 'mixed-loads-out-of-order', 'repeated-attachment', 'scaled-objects', 'equal-key-rotations']
    run_parallel(ck, 'checks.c15', [('roundtrip', (n,)) for n in names])
    ck.assumptions += ['argument lists are built from the listed templates; every numeric field of a template is an arbitrary value in '
                       'its stated range; geometry coordinates are concrete',
                       'printf conversions read back with the relative rounding bound they carry; models are compared to 1e-5 relative',
                       'format strings fork on the sign of each printed number (so "+-" shows)']
    ck.stubs += ['printf tokens / shadow float,int,complex (called by argparse through main\'s globals)',
                 'taper1/taper2 -> equal pieces (segmentation is C13; taper limits are still part of the compared model)']
    ck.outside += ['option shapes outside the templates', 'feed impedance itself (follows from model equality and C14)']
    return ck.finish('main -> as_cmdline -> main on token argument lists; acceptance of the written options and field-by-field model '
                     'equality decided by z3 for all values of the template fields on every path (sign pattern, tag order).')


if __name__ == '__main__':
    run_check('C15', main)
