"""C17 -- pulse addressing: sources and loads act on exactly the pulse the user named.

Tags (z3 Ints, or None for automatic), the addressed pulse k, the tag t and the absolute pulse
number a are symbolic.  The real compute_tags / Mininec.__init__ / register_source /
register_load / wires_as_mininec / sources_as_mininec / loads_as_mininec run on them; the oracle
is the geometry table the program prints (token text): "pulse (k, t)" is row k of the block whose
header carries tag t.
"""
import itertools
import multiprocessing as mp
import os
import re
import time
import z3
import numpy as np

from .common import Check, run_check
import symx
from symx import SR, SC, SI, core, tokens
from refmodels import topo, catalogue

HDR = re.compile(r'^(WIRE|ARC|HELIX) NO\.\s+(\S+) COORDINATES')


def parse_geometry(text):
    """[(tag value, [pulse numbers])] in printed order, from the ANTENNA GEOMETRY block."""
    blocks = []
    on = False
    for ln in text.split('\n'):
        if 'ANTENNA GEOMETRY' in ln:
            on = True
            continue
        if not on:
            continue
        m = HDR.match(ln)
        if m:
            blocks.append((tokens.parse_int(m.group(2)), []))
            continue
        if not ln.strip() or ln.startswith('X '):
            continue
        f = ln.split()
        if f[0] == '-':
            continue
        blocks[-1][1].append(int(f[-1]))
    return blocks


MODELS = {
    # name: (builder kind, spec)
    'L2':   ('topo', [(2, (0.13, 0.21, 1.07), (1.31, 0.42, 1.93), 0.002), (2, (1.31, 0.42, 1.93), (0.37, 1.56, 2.71), 0.003)], False),
    'Lrev': ('topo', [(2, (1.31, 0.42, 1.93), (0.13, 0.21, 1.07), 0.002), (1, (1.31, 0.42, 1.93), (0.37, 1.56, 2.71), 0.003)], False),
    'star': ('topo', [(2, (0.13, 0.21, 1.07), (1.31, 0.42, 1.93), 0.002), (1, (0.13, 0.21, 1.07), (0.37, 1.56, 2.71), 0.003),
                      (2, (-1.11, 0.83, 1.59), (0.13, 0.21, 1.07), 0.0025)], False),
    'gnd':  ('topo', [(2, (0.41, 0.27, 0.0), (1.31, 0.42, 1.93), 0.002), (2, (1.31, 0.42, 1.93), (1.83, -0.66, 0.0), 0.003)], True),
    'arcw': ('mixed', [('w', 2, (2.0, 0.3, 0.1), (2.9, 0.8, 0.9), 0.002), ('a', 3, 1.0, 10.0, 130.0, 0.002)], False),
    'hel':  ('mixed', [('h', 4, 1.0, 1.0, 0.002, 0.3, 0.25), ('w', 1, (0.3, 0.0, 0.0), (1.0, 0.7, -0.6), 0.002)], False),
}


def build_model(M, name, tags):
    kind, spec, ground = MODELS[name]
    geo = []
    if kind == 'topo':
        for i, (ns, p1, p2, r) in enumerate(spec):
            geo.append(M.Wire(ns, *p1, *p2, r, tag=tags[i]))
    else:
        for i, o in enumerate(spec):
            if o[0] == 'w':
                geo.append(M.Wire(o[1], *o[2], *o[3], o[4], tag=tags[i]))
            elif o[0] == 'a':
                geo.append(M.Arc(o[1], o[2], o[3], o[4], o[5], tag=tags[i]))
            else:
                geo.append(M.Helix(o[1], o[2], o[3], o[4], o[5], o[6], tag=tags[i]))
    return M.Mininec(29.98, geo, media=[M.Medium(0, 0)] if ground else None), geo


def job(args):
    name, auto_mask, qt = args
    sh = symx.load()
    M = sh.mininec
    mm = symx.real_mininec()
    nobj = len(MODELS[name][1])
    res = dict(obls=[], paths=0, solver_s=0.0, queries=0, functions=[], violations=[], truncated=False)
    jname = '%s-auto%s' % (name, format(auto_mask, '0%db' % nobj))

    def fn():
        c = symx.ctx()
        tags = []
        for i in range(nobj):
            if (auto_mask >> i) & 1:
                tags.append(None)
            else:
                t = SI.var('tag%d' % (i + 1))
                c.assume(z3.And(t.t >= -1, t.t <= 40))
                tags.append(t)
        k = SI.var('k')
        t = SI.var('t')
        a = SI.var('a')
        for v in (k, t, a):
            c.assume(z3.And(v.t >= -2, v.t <= 60))
        old = (M.format_float, sh.pulse.format_float)
        M.format_float = sh.pulse.format_float = tokens.format_float_stub
        try:
            with symx.object_arrays():
                m, geo = build_model(M, name, list(tags))
                text = m.wires_as_mininec()
                blocks = parse_geometry(text)
                out = dict(tags=tags, k=k, t=t, a=a, blocks=blocks, m=m, given=list(geo))
                # --- per-object addressing (k, t) ---------------------------------
                s1 = M.Excitation(1 + 0j)
                try:
                    m.register_source(s1, k - 1, t)
                    out['src_kt'] = s1.idx
                    out['src_listing'] = m.sources_as_mininec()
                except ValueError as e:
                    out['src_kt'] = ('ValueError', str(e))
                    m.sources[:] = [s for s in m.sources if s is not s1]
                except (IndexError, KeyError, TypeError, AssertionError, AttributeError) as e:
                    out['src_kt'] = ('Crash', repr(e))
                    m.sources[:] = [s for s in m.sources if s is not s1]
                # --- what the solver sees of it: the excitation vector of this source alone against that of a source named by the
                # absolute number of the same pulse ("both forms give identical results")
                if isinstance(out['src_kt'], int):
                    keep = list(m.sources)
                    m.sources[:] = [s1]
                    m.compute_rhs()
                    out['rhs_kt'] = [complex(x) for x in m.rhs]
                    m.sources[:] = []
                    s3 = M.Excitation(1 + 0j)
                    m.register_source(s3, out['src_kt'])
                    m.compute_rhs()
                    out['rhs_abs'] = [complex(x) for x in m.rhs]
                    m.sources[:] = keep
                # --- absolute addressing -----------------------------------------------
                s2 = M.Excitation(1 + 0j)
                try:
                    m.register_source(s2, a - 1)
                    out['src_a'] = s2.idx
                except ValueError as e:
                    out['src_a'] = ('ValueError', str(e))
                except (IndexError, KeyError, TypeError, AssertionError, AttributeError) as e:
                    out['src_a'] = ('Crash', repr(e))
                # --- loads: (k, t), absolute, all-of-object, all ---------------------------------
                l1 = M.Impedance_Load(5 + 1j)
                try:
                    m.register_load(l1, k - 1, t)
                    out['ld_kt'] = [p.idx for p in l1.pulses]
                except ValueError as e:
                    out['ld_kt'] = ('ValueError', str(e))
                except (IndexError, KeyError, TypeError, AssertionError, AttributeError) as e:
                    out['ld_kt'] = ('Crash', repr(e))
                l2 = M.Impedance_Load(6 + 1j)
                try:
                    m.register_load(l2, a - 1)
                    out['ld_a'] = [p.idx for p in l2.pulses]
                except ValueError as e:
                    out['ld_a'] = ('ValueError', str(e))
                except (IndexError, KeyError, TypeError, AssertionError, AttributeError) as e:
                    out['ld_a'] = ('Crash', repr(e))
                l3 = M.Impedance_Load(7 + 1j)
                try:
                    m.register_load(l3, None, t)
                    out['ld_allt'] = [p.idx for p in l3.pulses]
                except (ValueError, KeyError) as e:
                    out['ld_allt'] = ('Error', repr(e))
                l4 = M.Impedance_Load(8 + 1j)
                m.register_load(l4)
                out['ld_all'] = [p.idx for p in l4.pulses]
                m.f = 29.98
                out['ld_listing'] = m.loads_as_mininec()
                # the same load objects attached once more (a load may sit on several places; it is still ONE load):
                # the first registered load to a whole block, the second to the whole antenna
                again = []
                for ld_, args_ in ((l1, (None, t)), (l2, ())):
                    if ld_.n is None:
                        continue
                    try:
                        m.register_load(ld_, *args_)
                        again.append(ld_)
                    except (ValueError, KeyError):
                        pass
                out['attached'] = [(zl, [p.idx for p in ld_.pulses]) for ld_, zl in ((l1, 5 + 1j), (l2, 6 + 1j), (l3, 7 + 1j), (l4, 8 + 1j))
                                   if ld_.n is not None]
                out['n_loads'] = len(m.loads)
                out['n_distinct'] = len({id(x) for x in m.loads})
                # what the system matrix sees of these attachments: every attached pulse once, with its own weight
                m.Z = np.zeros((len(m.pulses), len(m.pulses)), dtype=complex)
                m.compute_impedance_matrix_loads()
                out['diag'] = [complex(m.Z[i][i]) for i in range(len(m.pulses))]
                out['offdiag'] = float(np.abs(m.Z - np.diag(np.diag(m.Z))).max()) if len(m.pulses) else 0.0
                out['weights'] = [(2.0 if (np.asarray(p.ground).any() and m.media is not None) else 1.0) / float(m.m) for p in m.pulses]
        finally:
            M.format_float, sh.pulse.format_float = old
        return out

    with symx.shadow.trace_functions(sh):
        paths = symx.explore(fn, query_timeout_ms=qt, max_paths=4000)
    res['functions'] = sorted(sh.entered)
    res['paths'] = len(paths)
    res['solver_s'] = paths.solver_s
    res['queries'] = paths.queries
    res['truncated'] = paths.truncated

    def decide(prem, goal):
        s = z3.Solver()
        s.set('timeout', qt)
        s.add(prem)
        s.add(z3.Not(goal))
        t0 = time.time()
        r = str(s.check())
        res['solver_s'] += time.time() - t0
        res['queries'] += 1
        return r, (s.model() if r == 'sat' else None)

    for pi, p in enumerate(paths):
        if p.exc is not None:
            if isinstance(p.exc, ValueError) and ('Tag' in str(p.exc) or 'tag' in str(p.exc)):
                continue             # invalid / duplicate tags rejected by compute_tags
            raise symx.HarnessError('%s path %d: %r' % (jname, pi, p.exc)) from p.exc
        o = p.value
        prem = p.pc + p.axioms
        blocks = o['blocks']
        k, t, a = o['k'], o['t'], o['a']
        m = o['m']
        N = len(m.pulses)
        goals = []
        # (1) blocks ordered by tag, numbering 1..N in printed order
        flat = [n for _, rows in blocks for n in rows]
        goals.append(('rows are numbered 1..N in printed order', z3.BoolVal(flat == list(range(1, N + 1)))))
        tagt = [SI(z3.IntVal(b[0])) if isinstance(b[0], int) else b[0] for b in blocks]
        goals.append(('blocks are ordered by tag',
                      z3.And(*[(tagt[i] < tagt[i + 1]).t for i in range(len(tagt) - 1)]) if len(tagt) > 1 else z3.BoolVal(True)))
        # automatic tags continue after the largest explicit one, in the order objects were given
        expl = [x for x in o['tags'] if x is not None]
        autos = [g for g, x in zip(o['given'], o['tags']) if x is None]
        if autos:
            mx = SI(z3.IntVal(0))
            for x in expl:
                mx = core.ite(x > mx, x, mx)
            goals.append(('automatic tags continue after the largest explicit tag',
                          z3.And(*[(g.tag == mx + (i + 1)).t for i, g in enumerate(autos)])))
        # junction pulse belongs to the later-tagged object
        jg = []
        for g in m.geo:
            for pp in g.pulses:
                if pp.geo[0] is not pp.geo[1]:
                    other = pp.geo[0] if pp.geo[1] is g else pp.geo[1]
                    jg.append((SI.lift(g.tag) > other.tag).t if isinstance(g.tag, SI) or isinstance(other.tag, SI)
                              else z3.BoolVal(g.tag > other.tag))
        if jg:
            goals.append(('junction pulse is in the block of the later-tagged object', z3.And(*jg)))
        # (2) (k, t) addresses row k of block t; invalid addresses are refused
        valid_terms = []
        for tg, rows in zip(tagt, blocks):
            rows = rows[1]
            for r, n in enumerate(rows):
                valid_terms.append((z3.And((t == tg).t, (k == r + 1).t), n))
        valid = z3.Or(*[v for v, _ in valid_terms]) if valid_terms else z3.BoolVal(False)
        for what in ('src_kt', 'ld_kt'):
            got = o[what]
            if isinstance(got, tuple) and got[0] == 'Crash':
                goals.append(('%s: no uncaught exception' % what, z3.BoolVal(False)))
            elif isinstance(got, tuple):
                goals.append(('%s: refused => (k,t) names no row' % what, z3.Not(valid)))
            else:
                idx = got if isinstance(got, int) else (got[0] if len(got) == 1 else None)
                if idx is None:
                    goals.append(('%s: exactly one pulse loaded' % what, z3.BoolVal(False)))
                else:
                    goals.append(('%s: acts on row k of block t' % what,
                                  z3.Or(*[v for v, n in valid_terms if n == idx + 1]) if any(n == idx + 1 for _, n in valid_terms)
                                  else z3.BoolVal(False)))
        # (3) absolute number a addresses the row printed with a
        for what in ('src_a', 'ld_a'):
            got = o[what]
            if isinstance(got, tuple) and got[0] == 'Crash':
                goals.append(('%s: no uncaught exception' % what, z3.BoolVal(False)))
            elif isinstance(got, tuple):
                goals.append(('%s: refused => a is not a printed pulse number' % what, z3.Or((a < 1).t, (a > N).t)))
            else:
                idx = got if isinstance(got, (int, SI)) else (got[0] if len(got) == 1 else None)
                goals.append(('%s: acts on the row printed with a' % what,
                              z3.And((a == idx + 1).t, (a >= 1).t, (a <= N).t) if idx is not None else z3.BoolVal(False)))
        # (4) all,t loads each pulse of that block exactly once; all loads every pulse once
        got = o['ld_allt']
        if isinstance(got, tuple):
            goals.append(('all,t refused => unknown tag', z3.And(*[(t != tg).t for tg in tagt])))
        else:
            alts = []
            for tg, (_, rows) in zip(tagt, blocks):
                if sorted(n - 1 for n in rows) == sorted(got):
                    alts.append((t == tg).t)
            goals.append(('all,t loads each pulse of block t exactly once', z3.Or(*alts) if alts else z3.BoolVal(False)))
        goals.append(('all loads every pulse exactly once', z3.BoolVal(sorted(o['ld_all']) == list(range(N)))))
        # (5) listings name the pulse number
        if not isinstance(o['src_kt'], tuple):
            lst = o['src_listing'].split('\n')
            ok = len(lst) == 2 and lst[1].split(':')[1].split(',')[0].strip() == str(o['src_kt'] + 1)
            goals.append(('source listing names the pulse', z3.BoolVal(ok)))
        ll = [ln for ln in o['ld_listing'].split('\n') if ln.startswith('PULSE NO.')]
        want = []
        for key in ('ld_kt', 'ld_a', 'ld_allt', 'ld_all'):
            if not isinstance(o[key], tuple):
                want.extend(n + 1 for n in o[key])
        gotn = [int(ln.split(':')[1].split(',')[0]) for ln in ll]
        goals.append(('load listing has one line per loaded pulse, naming it', z3.BoolVal(gotn == want)))
        if 'rhs_kt' in o:
            same = len(o['rhs_kt']) == len(o['rhs_abs']) and all(abs(x - y) <= 1e-12 * (1 + abs(y)) for x, y in zip(o['rhs_kt'], o['rhs_abs']))
            goals.append(('a source named as (k,t) excites the system exactly as the source named by the absolute number of that pulse', z3.BoolVal(bool(same))))
        # (6) the matrix diagonal carries each attachment exactly once with the weight of that pulse
        exp = [0j] * N
        for zl, plist in o['attached']:
            for n_ in plist:
                exp[n_] += -1j * zl * o['weights'][n_]
        goals.append(('a load attached in several steps is still one load in the model', z3.BoolVal(o['n_loads'] == o['n_distinct'])))
        okd = o['offdiag'] == 0.0 and all(abs(x - y) <= 1e-12 * (1 + abs(y)) for x, y in zip(o['diag'], exp))
        goals.append(('the system matrix gets every attached load exactly once on the diagonal of its pulse', z3.BoolVal(bool(okd))))

        for gname, goal in goals:
            on = '%s/path%d/%s' % (jname, pi, gname)
            r, mdl = decide(prem, goal)
            if r == 'unsat':
                res['obls'].append((on, 'discharged', None))
            elif r == 'unknown':
                res['obls'].append((on, 'inconclusive', None))
            else:
                conc = dict(tags=[None if x is None else core.model_value(mdl, x) for x in o['tags']],
                            k=core.model_value(mdl, k), t=core.model_value(mdl, t), a=core.model_value(mdl, a))
                v = replay(mm, name, conc)
                if v:
                    res['violations'].append(v)
                    res['obls'].append((on, 'violation', v[1]))
                else:
                    res['obls'].append((on, 'spurious', conc))
    return res


def replay(mm, name, c):
    """Concrete replay on the untouched package, reading the real report text."""
    try:
        m, geo = build_model(mm, name, list(c['tags']))
    except ValueError:
        return None
    text = m.wires_as_mininec()
    blocks = []
    on = False
    for ln in text.split('\n'):
        if 'ANTENNA GEOMETRY' in ln:
            on = True
            continue
        if not on:
            continue
        mt = HDR.match(ln)
        if mt:
            blocks.append((int(mt.group(2)), []))
            continue
        if not ln.strip() or ln.startswith('X '):
            continue
        f = ln.split()
        if f[0] != '-':
            blocks[-1][1].append(int(f[-1]))
    N = len(m.pulses)
    rd = dict(kind='addressing', model=name, **{k: (v if not isinstance(v, list) else list(v)) for k, v in c.items()})
    flat = [n for _, rows in blocks for n in rows]
    if flat != list(range(1, N + 1)):
        return ('C17:numbering', '%s tags %s: geometry rows are numbered %s' % (name, c['tags'], flat), rd)
    tl = [b[0] for b in blocks]
    if tl != sorted(tl):
        return ('C17:block-order', '%s tags %s: blocks printed in tag order %s' % (name, c['tags'], tl), rd)
    expl = [x for x in c['tags'] if x is not None]
    autos = [g.tag for g, x in zip(geo, c['tags']) if x is None]
    if autos != [max(expl + [0]) + i + 1 for i in range(len(autos))]:
        return ('C17:auto-tags', '%s tags %s: automatic tags are %s' % (name, c['tags'], autos), rd)
    for g in m.geo:
        for pp in g.pulses:
            if pp.geo[0] is not pp.geo[1]:
                other = pp.geo[0] if pp.geo[1] is g else pp.geo[1]
                if not g.tag > other.tag:
                    return ('C17:junction-owner', '%s tags %s: junction pulse %d is listed under tag %d, joins tag %d'
                            % (name, c['tags'], pp.idx + 1, g.tag, other.tag), rd)
    bt = dict(blocks)
    k, t, a = c['k'], c['t'], c['a']
    want = bt[t][k - 1] if t in bt and 1 <= k <= len(bt[t]) else None
    for kind in ('source', 'load'):
        try:
            if kind == 'source':
                s = mm.Excitation(1 + 0j)
                m.register_source(s, k - 1, t)
                got = s.idx + 1
                m.compute_rhs()
                r1 = np.array(m.rhs, dtype=complex)
                m.sources.remove(s)
                s3 = mm.Excitation(1 + 0j)
                m.register_source(s3, s.idx)
                m.compute_rhs()
                r2 = np.array(m.rhs, dtype=complex)
                m.sources.remove(s3)
                if got == want and np.abs(r1 - r2).max() > 1e-12 * (1 + np.abs(r2).max()):
                    return ('C17:per-object:source-effect', '%s tags %s: a source on pulse %d of object %d (absolute %d) gives the excitation vector entry %r, '
                            'the same source named by the absolute number %r' % (name, c['tags'], k, t, got, complex(r1[s.idx]), complex(r2[s.idx])), rd)
            else:
                l = mm.Impedance_Load(5 + 1j)
                m.register_load(l, k - 1, t)
                got = [p.idx + 1 for p in l.pulses]
                got = got[0] if len(got) == 1 else got
        except ValueError:
            got = None
        except Exception as e:
            got = 'uncaught %r' % e
        if got != want:
            return ('C17:per-object:%s' % kind, '%s tags %s: %s on pulse %d of object %d acts on pulse %s, geometry table says %s'
                    % (name, c['tags'], kind, k, t, got, want), rd)
    want = a if 1 <= a <= N else None
    for kind in ('source', 'load'):
        try:
            if kind == 'source':
                s = mm.Excitation(1 + 0j)
                m.register_source(s, a - 1)
                got = s.idx + 1
            else:
                l = mm.Impedance_Load(5 + 1j)
                m.register_load(l, a - 1)
                got = [p.idx + 1 for p in l.pulses]
                got = got[0] if len(got) == 1 else got
        except ValueError:
            got = None
        except Exception as e:
            got = 'uncaught %r' % e
        if got != want:
            return ('C17:absolute:%s' % kind, '%s tags %s: %s on absolute pulse %d acts on pulse %s'
                    % (name, c['tags'], kind, a, got), rd)
    l = mm.Impedance_Load(7 + 1j)
    try:
        m.register_load(l, None, t)
        got = sorted(p.idx + 1 for p in l.pulses)
    except (ValueError, KeyError):
        got = None
    want = sorted(bt[t]) if t in bt else None
    if got != want:
        return ('C17:all-of-object', '%s tags %s: all,%d loads pulses %s, block has %s' % (name, c['tags'], t, got, want), rd)
    l = mm.Impedance_Load(8 + 1j)
    m.register_load(l)
    if sorted(p.idx + 1 for p in l.pulses) != list(range(1, N + 1)):
        return ('C17:all', '%s tags %s: all loads pulses %s' % (name, c['tags'], sorted(p.idx + 1 for p in l.pulses)), rd)
    # attach the first two loads once more (block t / whole antenna), as the symbolic run does
    for ld_, args_ in ((m.loads[0] if m.loads else None, (None, t)), (m.loads[1] if len(m.loads) > 1 else None, ())):
        if ld_ is None:
            continue
        try:
            m.register_load(ld_, *args_)
        except (ValueError, KeyError):
            pass
    if len(m.loads) != len({id(x) for x in m.loads}):
        return ('C17:load-registered-twice', '%s tags %s: a load attached in several steps appears %d times in the model' % (name, c['tags'], max(sum(1 for y in m.loads if y is x) for x in m.loads)), rd)
    # matrix effect of everything attached so far: once per attachment, weight of the pulse
    m.f = 29.98
    m.Z = np.zeros((N, N), dtype=complex)
    m.compute_impedance_matrix_loads()
    exp = np.zeros(N, dtype=complex)
    for ld in {id(x): x for x in m.loads}.values():
        for p in ld.pulses:
            wgt = (2.0 if (np.asarray(p.ground).any() and m.media is not None) else 1.0) / m.m
            exp[p.idx] += -1j * ld.impedance(m.f, p) * wgt
    d = np.diag(m.Z)
    if np.abs(d - exp).max() > 1e-12 * (1 + np.abs(exp).max()):
        k_ = int(np.argmax(np.abs(d - exp)))
        return ('C17:matrix-effect', '%s tags %s: pulse %d receives %.3f times the load attached to it' % (name, c['tags'], k_ + 1, abs(d[k_] / exp[k_]) if exp[k_] else float('inf')), rd)
    return None


def main_sources_job(args):
    """The command-line layer: the real main() on an argument list with two sources, one named as (k,t) and one by absolute number, in
    either order (k, t, a arbitrary integers as option text).  Whenever the model is accepted, each source sits on the pulse the
    user named, read from the printed geometry table; both orders of the two options give the same two pulses."""
    order, qt = args
    import io, contextlib
    sh = symx.load()
    M = sh.mininec
    mm = symx.real_mininec()
    res = dict(obls=[], paths=0, solver_s=0.0, queries=0, functions=[], violations=[], truncated=False)
    W = ['-w', '2,4,0.13,0.21,1.07,1.31,0.42,1.93,0.002', '-w', '1,3,1.31,0.42,1.93,0.37,1.56,2.71,0.003']
    jname = 'main-sources-%s' % order

    def argv_of(kt, a):
        o = ['--excitation-pulse=%s,%s' % kt, '--excitation-pulse=%s' % a]
        if order == 'abs-first':
            o.reverse()
        return ['-f', '29.98'] + W + o + ['--excitation-voltage=1+0j', '--excitation-voltage=0.5+0.5j']

    def fn():
        c = symx.ctx()
        k, t, a = SI.var('k'), SI.var('t'), SI.var('a')
        for v in (k, t, a):
            c.assume(z3.And(v.t >= -1, v.t <= 9))
        old = (M.format_float, sh.pulse.format_float)
        M.format_float = sh.pulse.format_float = tokens.format_float_stub
        out, err = io.StringIO(), io.StringIO()
        try:
            with symx.object_arrays(), contextlib.redirect_stdout(out), contextlib.redirect_stderr(err):
                m = M.main(argv_of((tokens.exact(k), tokens.exact(t)), tokens.exact(a)), f_err=err, return_mininec=True)
                if hasattr(m, 'pulses'):
                    blocks = parse_geometry(m.wires_as_mininec())
                    return dict(k=k, t=t, a=a, idx=[s_.idx for s_ in m.sources], blocks=blocks, N=len(m.pulses))
        except SystemExit:
            pass
        finally:
            M.format_float, sh.pulse.format_float = old
        return dict(k=k, t=t, a=a, idx=None)

    with symx.shadow.trace_functions(sh):
        paths = symx.explore(fn, query_timeout_ms=qt, max_paths=400)
    res['functions'] = sorted(sh.entered)
    res['paths'], res['solver_s'], res['queries'], res['truncated'] = len(paths), paths.solver_s, paths.queries, paths.truncated
    for pi, p in enumerate(paths):
        if p.exc is not None:
            raise symx.HarnessError('%s path %d: %r' % (jname, pi, p.exc)) from p.exc
        o = p.value
        if o['idx'] is None:
            continue                                  # refused: fail-safety of refusals is C20
        k, t, a = o['k'], o['t'], o['a']
        i_kt, i_a = (o['idx'][0], o['idx'][1]) if order == 'kt-first' else (o['idx'][1], o['idx'][0])
        alts = []
        for tg, rows in o['blocks']:
            for r_, n_ in enumerate(rows):
                if n_ == i_kt + 1:
                    alts.append(z3.And((t == tg).t, (k == r_ + 1).t))
        goals = [('the source named as (k,t) sits on row k of block t', z3.Or(*alts) if alts else z3.BoolVal(False)),
                 ('the source named by the absolute number a sits on the pulse printed with a', (a == i_a + 1).t)]
        for gname, goal in goals:
            sv = z3.Solver()
            sv.set('timeout', qt)
            sv.add(p.pc + p.axioms)
            sv.add(z3.Not(goal))
            t0 = time.time()
            r = str(sv.check())
            res['solver_s'] += time.time() - t0
            res['queries'] += 1
            on = '%s/path%d/%s' % (jname, pi, gname)
            if r == 'unsat':
                res['obls'].append((on, 'discharged', None))
            elif r == 'unknown':
                res['obls'].append((on, 'inconclusive', None))
            else:
                mdl = sv.model()
                kc, tc, ac = (int(core.model_value(mdl, x)) for x in (k, t, a))
                v = replay_main_sources(mm, argv_of((kc, tc), ac), order, kc, tc, ac)
                if v:
                    res['violations'].append(v)
                    res['obls'].append((on, 'violation', v[1]))
                else:
                    res['obls'].append((on, 'spurious', dict(k=kc, t=tc, a=ac)))
    return res


def replay_main_sources(mm, argv, order, k, t, a):
    import io, contextlib
    out, err = io.StringIO(), io.StringIO()
    try:
        with contextlib.redirect_stdout(out), contextlib.redirect_stderr(err):
            m = mm.main(list(argv), f_err=err, return_mininec=True)
    except SystemExit:
        return None
    if not hasattr(m, 'pulses'):
        return None
    blocks = []
    on = False
    for ln in m.wires_as_mininec().split('\n'):
        if 'ANTENNA GEOMETRY' in ln:
            on = True
            continue
        if not on:
            continue
        mt = HDR.match(ln)
        if mt:
            blocks.append((int(mt.group(2)), []))
            continue
        if not ln.strip() or ln.startswith('X '):
            continue
        f = ln.split()
        if f[0] != '-':
            blocks[-1][1].append(int(f[-1]))
    bt = dict(blocks)
    idx = [s_.idx + 1 for s_ in m.sources]
    got_kt, got_a = (idx[0], idx[1]) if order == 'kt-first' else (idx[1], idx[0])
    want_kt = bt[t][k - 1] if t in bt and 1 <= k <= len(bt[t]) else None
    if got_kt != want_kt or got_a != a:
        return ('C17:command-line:two-sources:%s' % order, 'main %s: the sources act on pulses %s (per-object form) and %s (absolute form); the geometry table '
                'names pulse %s as pulse %d of object %d and the absolute number given is %d' % (' '.join(argv[6:8]), got_kt, got_a, want_kt, k, t, a),
                dict(kind='main-sources', argv=list(argv)))
    return None


def main(args):
    ck = Check('C17', args)
    ck.shadow_stats = symx.load().stats
    qt = 10000 if ck.tier == 'quick' else 60000
    jobs = []
    names = ['L2', 'Lrev', 'gnd', 'arcw'] if ck.tier == 'quick' else list(MODELS)
    for name in names:
        nobj = len(MODELS[name][1])
        masks = range(2 ** nobj)
        if ck.tier == 'quick' and nobj > 2:
            masks = (0, 2 ** nobj - 1, 2)
        for mk in masks:
            jobs.append((name, mk, qt))
    with mp.Pool(min(16, os.cpu_count() or 1)) as pool:
        results = pool.map(job, jobs, chunksize=1) + pool.map(main_sources_job, [('kt-first', qt), ('abs-first', qt)], chunksize=1)
    funcs = set()
    for r in results:
        funcs.update(r['functions'])
        ck.paths += r['paths']
        ck.solver_s += r['solver_s']
        ck.queries += r['queries']
        if r['truncated']:
            ck.paths_truncated += 1
        for on, verdict, detail in r['obls']:
            if verdict == 'violation':
                continue
            ck.record(on, verdict, detail, sample=dict(obligation=on, verdict=verdict,
                                                       symbolic_inputs=['tags (Int or automatic)', 'k', 't', 'a']))
        for key, what, rd in r['violations']:
            verdict = ck.report_violation(key, what, rd)
            ck.record(key, verdict, what, sample=dict(counterexample=rd, verdict=verdict))
    ck.twin('paths', ck.paths > 0)
    ck.functions = funcs
    ck.bounds.update(models=names, tags='each object: Int in [-1, 40] or automatic; k, t, a in [-2, 60]')
    ck.assumptions += ['geometry of the listed models is concrete (2-3 objects incl. arc and helix, junctions at either end, '
                       'grounded ends, single-segment wires); tags and addresses are arbitrary integers in range',
                       'format_float replaced by the exact token formatter']
    ck.stubs += ['util.format_float -> exact token formatter']
    ck.outside += ['models other than the listed ones', 'command lines other than the two-source template (C15/C20 run main on theirs)']
    return ck.finish('Real compute_tags/register_source/register_load/report writers on symbolic integer tags and addresses; '
                     'every path (tag order, validity class, addressed row) gets its assertions decided by z3 in linear integer '
                     'arithmetic against the printed geometry table.')


if __name__ == '__main__':
    run_check('C17', main)
