"""Shared plumbing of the psi-atom family (C03, C05, C06): fill several models over ONE atom table,
map pulses between descriptions by position and flow direction, add the additivity axioms."""
import numpy as np
import z3

import symx
from symx import SR, SC, core, psistub, poly
from fractions import Fraction


def _f(x):
    return np.asarray(x, dtype=float)


def install(M, table):
    """fast_quad -> atom stub; psi is wrapped (the real psi still runs) only to tell the stub whether the
    integral extends over a full segment (|scale| = 1) so that additivity axioms can be attached."""
    psistub.install(M, table)
    orig_psi = M.Mininec.__dict__.get('_sx_orig_psi') or M.Mininec.psi
    M.Mininec._sx_orig_psi = orig_psi
    fq = M.Mininec.fast_quad
    table.full = set()

    def psi(self, vec2, vecv, k, scale, pidx, exact=False, fvs=0):
        table.cur_scale = abs(scale)
        try:
            return orig_psi(self, vec2, vecv, k, scale, pidx, exact=exact, fvs=fvs)
        finally:
            table.cur_scale = None

    def fast_quad(self, a, b, args, n):
        n0 = len(table.calls)
        r = fq(self, a, b, args, n)
        if getattr(table, 'cur_scale', None) == 1 and b == 1:
            for ai, _ in table.calls[n0:]:
                table.full.add(ai)
        return r
    M.Mininec.psi = psi
    M.Mininec.fast_quad = fast_quad


def additivity_axioms(table):
    """F = (Ha + Hb)/2 for every full-segment, full-range, reduced-kernel integral seen so far."""
    ax = []
    done = getattr(table, 'ax_done', set())
    for ai in sorted(table.full):
        if ai in done:
            continue
        done.add(ai)
        v2, vv, k, r, ex, ub, w = table.args[ai]
        if table.keys[ai][4] % 2 != 0.0:
            continue                       # exact kernel: singular part is not additive in this simple form
        mid = (v2 + vv) / 2
        th = table.keys[ai][4] >= 2.0
        ha = table.atom_for(v2, mid, 1, r, False, 1.0, w, args=(v2.copy(), mid.copy(), 1, r, False, 1.0, w), thick=th)
        hb = table.atom_for(mid, vv, 1, r, False, 1.0, w, args=(mid.copy(), vv.copy(), 1, r, False, 1.0, w), thick=th)
        F, A, B = table.atoms[ai], table.atoms[ha], table.atoms[hb]
        ax.append((F * 2).eq_t(A + B))
    table.ax_done = done
    return ax


def fill(M, model):
    with symx.object_arrays():
        model.compute_impedance_matrix()
    return model


def same(a, b, tol):
    return float(np.linalg.norm(_f(a) - _f(b))) <= tol


def pulse_map(ma, mb, pmap=lambda x: _f(x), image=False, tol=None):
    """For every pulse of ma the pulse of mb that sits at pmap(point) with the mapped pair of far
    ends, and the relative orientation: (index in mb, sign).  image=True maps the IMAGE current of a
    pulse (flow direction mirrored and reversed horizontally: it runs from pmap(ends[1]) to pmap(ends[0]))."""
    if tol is None:
        tol = 1e-7 * max(float(np.linalg.norm(_f(p.ends[1]) - _f(p.ends[0]))) for p in ma.pulses)
    out = []
    for p in ma.pulses:
        pt, e0, e1 = pmap(p.point), pmap(p.ends[0]), pmap(p.ends[1])
        if image:
            e0, e1 = e1, e0
        hit = None
        for q in mb.pulses:
            if not same(q.point, pt, tol):
                continue
            if same(q.ends[0], e0, tol) and same(q.ends[1], e1, tol):
                hit = (q.idx, 1)
            elif same(q.ends[0], e1, tol) and same(q.ends[1], e0, tol):
                hit = (q.idx, -1)
            if hit:
                break
        out.append(hit)
    return out


def lin_tol(terms, rel=Fraction(1, 10 ** 9)):
    tot = Fraction(0)
    for t in terms:
        t = SC.lift(t)
        for part in (t.nr, t.ni):
            for m, c in poly.expand(part).items():
                tot += abs(c)
    return tot * rel + Fraction(1, 10 ** 30)


def close_goal(a, b):
    """z3 Bool: the linear forms a and b agree within 1e-9 of the sum of |coefficients| (atoms in [-1,1])."""
    a, b = SC.lift(a), SC.lift(b)
    d = a - b
    if d.dr is not None:
        raise symx.HarnessError('linear form with a denominator')
    tol = core.RV(lin_tol([a, b]))
    return z3.And(d.nr <= tol, d.nr >= -tol, d.ni <= tol, d.ni >= -tol)
