"""C10 -- far field = radiation integral of the currents; dBi and V/m agree.

The real compute_far_field / Angle / Far_Field_Pattern run on symbolic pulse currents, power,
requested power and distance (and a symbolic azimuth for the periodicity/zenith clauses) over
concrete catalogue geometry.  Oracle: the MININEC radiation sum written from pulse geometry
(refmodels/farfield.py, validated numerically against the unmodified code to 4e-16).
"""
import math
from fractions import Fraction
import z3
import numpy as np

from .common import Check, run_check, prove_paths, close, run_parallel
import symx
from symx import SR, SC, core, npf, poly
from symx.core import eq_term
from refmodels import catalogue, farfield
from .c08 import pos

DIRS_FREE = [(20.0, 15.0), (90.0, 0.0), (135.0, 250.0), (0.0, 40.0)]
DIRS_GND = [(20.0, 15.0), (60.0, 120.0), (85.0, 300.0), (0.0, 40.0)]


def _box_currents(n, scale=1.0):
    c = symx.ctx()
    I = []
    for k in range(n):
        v = SC.var('I%d' % k)
        for t in (v.nr, v.ni):
            c.assume(z3.And(t >= core.RV(-scale), t <= core.RV(scale)))
        I.append(v)
    return I


def _set_currents(m, I):
    cur = np.empty(len(I), dtype=object)
    cur[:] = I
    m.current = cur


def radiation_sum(ck, sh, mm, gname, scale):
    """(A) E_theta, E_phi of the code = reference radiation sum, for all currents in a box."""
    M = sh.mininec
    objs, gnd = catalogue.spec(gname)
    dirs = DIRS_GND if gnd else DIRS_FREE
    if ck.tier == 'quick':
        dirs = dirs[:3]

    for (th, ph) in dirs:
        # a 2 x 2 table per request (two zenith and two azimuth angles): code paths that share work between the rows
        # of one request are exercised too
        dth, dph = (7.0, 33.0)

        vi = (dirs.index((th, ph)) + sum(map(ord, gname))) % 6          # which single parameter the directly preceding request differs in

        def fn(th=th, ph=ph, vi=vi):
            m = catalogue.build(M, gname)
            n = len(m.pulses)
            I = _box_currents(n, scale)
            _set_currents(m, I)
            m.power = 1.0
            with symx.object_arrays():
                # earlier requests on the same solved model with other steppings (same starts and counts): the table of the
                # LAST request must belong to its own directions
                # earlier requests on the same solved model: every one differs from the next in exactly ONE of the six request
                # parameters (start, step, count of zenith and azimuth), the last of them from the request under test
                for za in _request_history(th, dth, ph, dph, vi):
                    m.compute_far_field(M.Angle(*za[0]), M.Angle(*za[1]))
                m.compute_far_field(M.Angle(th, dth, 2), M.Angle(ph, dph, 2))
            ff = m.far_field
            ents = []
            for a in range(2):
                for t in range(2):
                    if gnd and th + t * dth > 90:
                        continue
                    at, ap = farfield.coefficients(m, th + t * dth, ph + a * dph)
                    rt = sum((x * i for x, i in zip(at, I)), SC(0.0, 0.0))
                    rp = sum((x * i for x, i in zip(ap, I)), SC(0.0, 0.0))
                    bound = sum(abs(x) for x in at + ap) * scale * 2
                    ents.append((th + t * dth, ph + a * dph, ff.e_theta[a][t], ff.e_phi[a][t], rt, rp, bound))
            return dict(inputs=dict(I=I), ents=ents)

        def goals(o):
            g = []
            for tt, pp, et, ep, rt, rp, bound in o['ents']:
                tol = core.RV(Fraction(bound) * Fraction(1, 10 ** 9) + Fraction(1, 10 ** 30))
                for nm, a, b in (('E_theta', et, rt), ('E_phi', ep, rp)):
                    d = SC.lift(a) - b
                    g.append(('%s(%g,%g) = radiation sum' % (nm, tt, pp),
                              z3.And(d.re.n * 1 <= tol * d.re.den, d.re.n * 1 >= -tol * d.re.den,
                                     d.im.n * 1 <= tol * d.im.den, d.im.n * 1 >= -tol * d.im.den)))
            return g

        def replay(c, gn, out, th=th, ph=ph):
            return replay_sum(mm, gname, [complex(x) for x in c['I']], req=(th, dth, ph, dph), vi=vi)
        prove_paths(ck, 'sum-%s-%g-%g-x%g' % (gname, th, ph, scale), fn, goals, replay, max_paths=16, fork_policy='assume', twin_timeout_ms=2000, prefer_true=('compute_far_field',))
    ck.bounds.setdefault('radiation_sum', []).append('%s: directions %s, |Re I|,|Im I| <= %g' % (gname, dirs, scale))


def _request_history(th, dth, ph, dph, vi):
    """Two earlier requests; the second differs from the request under test (th, dth, 2; ph, dph, 2) only in parameter vi."""
    base = [[th, dth, 2], [ph, dph, 2]]
    var = [[list(base[0]), list(base[1])] for _ in range(6)]
    var[0][0][0] = th + 3.0          # zenith start
    var[1][0][1] = dth / 2           # zenith step
    var[2][0][2] = 3                 # zenith count
    var[3][1][0] = ph + 11.0         # azimuth start
    var[4][1][1] = dph / 4           # azimuth step
    var[5][1][2] = 3                 # azimuth count
    return [var[(vi + 3) % 6], var[vi]]


def replay_sum(mm, gname, I, req=None, vi=None):
    """The property's own sentence on the real code: code vs radiation sum within 1e-4 of the pattern maximum, over a
    10-degree sphere grid, over the very request that gave the candidate (2 x 2) and over a square 3 x 3 request."""
    I = np.array(I, dtype=complex)
    if np.abs(I).max() < 1e-9:
        I = np.array([complex(1 + 0.3 * k, 0.5 - 0.2 * k) for k in range(len(I))])
    m0 = catalogue.build(mm, gname)
    gnd = m0.media is not None
    grids = [(mm.Angle(0.0, 10.0, 10 if gnd else 19), mm.Angle(0.0, 10.0, 36))]
    if req is not None:
        th, dth, ph, dph = req
        grids.append((mm.Angle(th, dth, 2), mm.Angle(ph, dph, 2)))
        grids.append((mm.Angle(min(th, 60.0), 11.0, 3), mm.Angle(ph, 47.0, 3)))
    for zen, azi in grids:
        m = catalogue.build(mm, gname)
        m.current = I
        m.power = 1.0
        if req is not None and vi is not None and zen.number == 2 and azi.number == 2:
            for za in _request_history(zen.initial, zen.inc, azi.initial, azi.inc, vi):
                m.compute_far_field(mm.Angle(*za[0]), mm.Angle(*za[1]))
        m.compute_far_field(zen, azi)
        ff = m.far_field
        ref_t = np.zeros(ff.zen.shape, dtype=complex)
        ref_p = np.zeros(ff.zen.shape, dtype=complex)
        for a in range(ff.zen.shape[0]):
            for t in range(ff.zen.shape[1]):
                if gnd and ff.zen[a][t] > 90:
                    continue
                at, ap = farfield.coefficients(m, ff.zen[a][t], ff.azi[a][t])
                ref_t[a][t] = sum(x * i for x, i in zip(at, m.current))
                ref_p[a][t] = sum(x * i for x, i in zip(ap, m.current))
        ok = ~((ff.zen > 90) & gnd)
        et, ep = np.asarray(ff.e_theta), np.asarray(ff.e_phi)
        if et.shape != ref_t.shape or ep.shape != ref_p.shape:
            return ('C10:radiation-sum:shape', '%s: far-field arrays of a %d x %d request have shapes %s / %s' % (gname, zen.number, azi.number, et.shape, ep.shape),
                    dict(kind='sum', geometry=gname))
        mx = max(np.abs(ref_t[ok]).max(), np.abs(ref_p[ok]).max(), 1e-300)
        err = max(np.abs(ref_t - et)[ok].max(), np.abs(ref_p - ep)[ok].max())
        if err > 1e-4 * mx:
            dd = (np.abs(ref_t - et) + np.abs(ref_p - ep)) * ok
            a, t = np.unravel_index(np.argmax(dd), ref_t.shape)
            return ('C10:radiation-sum:%s' % ('ground' if gnd else 'free'),
                    '%s, request %d zenith x %d azimuth angles: far field deviates from the radiation sum of the pulse currents by %.3g of the pattern maximum '
                    '(theta=%g phi=%g: E_theta %r vs %r, E_phi %r vs %r)' % (gname, zen.number, azi.number, err / mx, ff.zen[a][t], ff.azi[a][t],
                                                                         complex(et[a][t]), complex(ref_t[a][t]), complex(ep[a][t]), complex(ref_p[a][t])),
                    dict(kind='sum', geometry=gname))
    return None


def tables(ck, sh, mm, gname):
    """(B) dBi = 10 log10(|E|^2 / (59.96 P)) per polarisation, total = power sum, -999 floor;
       (C) V/m scale with sqrt(P_req/P) and 1/r;  (E) a second request gives the same tables."""
    M = sh.mininec
    objs, gnd = catalogue.spec(gname)
    th, ph = (DIRS_GND if gnd else DIRS_FREE)[0]

    def fn():
        m = catalogue.build(M, gname)
        n = len(m.pulses)
        I = _box_currents(n, 1.0)
        _set_currents(m, I)
        P = pos('P', 1e-9, 1e6)
        Preq = pos('Preq', 1e-9, 1e6)
        r = pos('r', 1e-3, 1e7)
        m.power = P
        logs = []
        old_log = npf.Facade._over['log']

        def log_spy(x, *a, **kw):
            res = old_log(x, *a, **kw)
            if isinstance(x, np.ndarray) and x.dtype == object:
                logs.extend(zip(list(x.reshape(-1)), list(res.reshape(-1))))
            return res
        npf.Facade._over['log'] = log_spy
        try:
            with symx.object_arrays():
                zen, azi = M.Angle(th, 10.0, 1), M.Angle(ph, 10.0, 1)
                m.compute_far_field(zen, azi)
                ff1 = m.far_field
                args1 = list(logs)
                m.compute_far_field(zen, azi)
                ff1b = m.far_field
                del logs[:]
                m.compute_far_field(zen, azi, pwr=Preq, dist=r)
                ff2 = m.far_field
        finally:
            npf.Facade._over['log'] = old_log
        return dict(inputs=dict(I=I, P=P, Preq=Preq, r=r), ff1=ff1, ff1b=ff1b, ff2=ff2, logs=args1, P=P, Preq=Preq, r=r)

    def goals(o):
        ff1, ff1b, ff2, P = o['ff1'], o['ff1b'], o['ff2'], o['P']
        et, ep = SC.lift(ff1.e_theta[0][0]), SC.lift(ff1.e_phi[0][0])
        gt, gp, gtot = ff1.gain[0][0]
        e2 = [SR.lift(et.abs2()), SR.lift(ep.abs2())]
        g = []
        # which entries took the log branch is fixed by the path; logs holds (argument, log) in order t1,t2,t3
        entries = [gt, gp, gtot]
        li = 0
        args = []
        for k, ent in enumerate(entries):
            is_floor = (not symx.is_sym(ent)) and float(ent) == -999.0
            if is_floor:
                args.append(None)
                continue
            arg, lg = o['logs'][li]
            li += 1
            args.append(SR.lift(arg))
            g.append(('dBi entry %d = 10*log10(argument)' % k, eq_term(ent, lg / np.log(10) * 10)))
        for k, nm in ((0, 'vertical'), (1, 'horizontal')):
            if args[k] is None:
                # floor taken: the linear gain is <= 1e-30
                lin = e2[k] * Fraction(.016678) / P          # the exact double the code uses
                g.append(('%s: -999 only when gain <= 1e-30' % nm, (lin <= Fraction(1e-30)).t))
            else:
                lhs = args[k] * Fraction(5996, 100) * P
                d = lhs - e2[k]
                g.append(('%s: gain*59.96*P = |E|^2 r^2 within 2e-5' % nm,
                          z3.And((d <= e2[k] * Fraction(2, 10 ** 5)).t, (d >= e2[k] * Fraction(-2, 10 ** 5)).t)))
        if args[2] is not None and args[0] is not None and args[1] is not None:
            g.append(('total = vertical + horizontal (power sum)', eq_term(args[2], args[0] + args[1])))
        # (E) idempotence
        g.append(('second request: same tables', z3.And(
            eq_term(ff1.e_theta[0][0], ff1b.e_theta[0][0]), eq_term(ff1.e_phi[0][0], ff1b.e_phi[0][0]),
            *[eq_term(a, b) if symx.is_sym(a) or symx.is_sym(b) else z3.BoolVal(a == b)
              for a, b in zip(ff1.gain[0][0], ff1b.gain[0][0])])))
        # (C) scaling: E(P_req, r) * r * sqrt(P/P) = E(P, 1) * sqrt(P_req/P)
        y1, y2 = ff1.pwr_ratio, ff2.pwr_ratio
        r = o['r']
        g.append(('V/m scales with sqrt(P_req/P) and 1/r', z3.And(
            eq_term(SC.lift(ff2.e_theta[0][0]) * r * y1, et * y2),
            eq_term(SC.lift(ff2.e_phi[0][0]) * r * y1, ep * y2))))
        g.append(('scale factor squared = P_req/P', eq_term(SR.lift(y2) * y2 * P, o['Preq'])))
        g.append(('dBi independent of requested power and distance', z3.And(
            *[eq_term(a, b) if symx.is_sym(a) or symx.is_sym(b) else z3.BoolVal(a == b)
              for a, b in zip(ff1.gain[0][0], ff2.gain[0][0])])))
        return g

    def replay(c, gn, out):
        return replay_tables(mm, gname, th, ph, [complex(x) for x in c['I']], c['P'], c['Preq'], c['r'])
    prove_paths(ck, 'tables-%s' % gname, fn, goals, replay, max_paths=64, fork_policy='assume', twin_timeout_ms=1000,
                timeout_ms=10000 if ck.tier == 'quick' else 60000)
    ck.bounds.setdefault('tables', []).append('%s at theta=%g phi=%g' % (gname, th, ph))


def replay_tables(mm, gname, th, ph, I, P, Preq, r):
    m = catalogue.build(mm, gname)
    m.current = np.array(I, dtype=complex)
    m.power = P
    zen, azi = mm.Angle(th, 10.0, 1), mm.Angle(ph, 10.0, 1)
    m.compute_far_field(zen, azi)
    f1 = m.far_field
    g1 = f1.gain.copy()
    et, ep = f1.e_theta[0][0], f1.e_phi[0][0]
    m.compute_far_field(zen, azi)
    if not (np.array_equal(m.far_field.gain, g1) and m.far_field.e_theta[0][0] == et):
        return ('C10:tables:idempotence', '%s: a second far-field request changes the tables' % gname, dict(kind='tables'))
    for k, e in ((0, et), (1, ep)):
        lin = abs(e) ** 2 / (59.96 * P)
        db = g1[0][0][k]
        if lin > 1e-29:
            if abs(db - 10 * math.log10(lin)) > 1e-3:
                return ('C10:tables:dbi-vs-vm', '%s: polarisation %d prints %r dBi, |E|^2 r^2/(59.96 P) gives %r dBi'
                        % (gname, k, db, 10 * math.log10(lin)), dict(kind='tables'))
        elif lin < 1e-31 and db != -999:
            return ('C10:tables:floor', '%s: gain %r for a vanishing field' % (gname, db), dict(kind='tables'))
    tot = (abs(et) ** 2 + abs(ep) ** 2) / (59.96 * P)
    if tot > 1e-29 and abs(g1[0][0][2] - 10 * math.log10(tot)) > 1e-3:
        return ('C10:tables:total', '%s: total %r dBi is not the power sum %r' % (gname, g1[0][0][2], 10 * math.log10(tot)),
                dict(kind='tables'))
    m.compute_far_field(zen, azi, pwr=Preq, dist=r)
    f2 = m.far_field
    fac = math.sqrt(Preq / P) / r
    for a, b in ((f2.e_theta[0][0], et), (f2.e_phi[0][0], ep)):
        if not close(a, b * fac, 1e-9, 1e-300):
            return ('C10:tables:scaling', '%s: V/m for P_req=%r, r=%r is %r, expected %r' % (gname, Preq, r, a, b * fac),
                    dict(kind='tables'))
    if not np.allclose(f2.gain, g1, rtol=1e-12, atol=1e-12):
        return ('C10:tables:dbi-depends-on-request', '%s: dBi changes with requested power/distance' % gname, dict(kind='tables'))
    return None


def periodic(ck, sh, mm, gname):
    """(D) rows 360 degrees apart are identical; at the zenith the field rotates rigidly with the
    azimuth, E_theta(phi) = c X + s Y, E_phi(phi) = -s X + c Y (X, Y: the field at phi = 0 / 90), which
    together with the rotation lemma |cX+sY|^2 + |-sX+cY|^2 = |X|^2 + |Y|^2 (decided separately for
    arbitrary X, Y, c^2+s^2=1) gives a total gain independent of the azimuth.  phi is symbolic."""
    M = sh.mininec

    def fn():
        c = symx.ctx()
        m = catalogue.build(M, gname)
        n = len(m.pulses)
        I = _box_currents(n, 1.0)
        _set_currents(m, I)
        m.power = 1.0
        phi = SR.var('phi')
        c.assume(z3.And(phi.n >= -720, phi.n <= 720))
        with symx.object_arrays():
            m.compute_far_field(M.Angle(35.0, 10.0, 1), M.Angle(phi, 360.0, 2))
            ffp = m.far_field
            known = c.__dict__.setdefault('circ_known', [])
            k0 = len(known)
            m.compute_far_field(M.Angle(0.0, 10.0, 1), M.Angle(phi, 0.0, 1))
            z1 = m.far_field
            if len(known) != k0 + 1:
                # the 360-degree run already created the pair for -phi (same angle modulo 2 pi)
                pair = known[0][1] if known else None
            else:
                pair = known[k0][1]
            m.compute_far_field(M.Angle(0.0, 10.0, 1), M.Angle(0.0, 90.0, 2))
            z0 = m.far_field
        # the (cos, sin) pair the code used for exp(-j*phi_rad): cos(-phi), sin(-phi)
        if pair is None:
            raise symx.HarnessError('periodic: no circle pair was created for the symbolic azimuth')
        cs, sn = pair
        k = 2 * math.pi / (299.8 / float(m.f))
        bound = farfield.G0 * k / 2 * sum(float(np.linalg.norm(np.asarray(p.point, dtype=float) - np.asarray(p.ends[0], dtype=float)))
                                          + float(np.linalg.norm(np.asarray(p.ends[1], dtype=float) - np.asarray(p.point, dtype=float)))
                                          for p in m.pulses) * 2 * 1.5
        return dict(inputs=dict(I=I, phi=phi), ffp=ffp, z1=z1, z0=z0, cs=cs, sn=-sn, bound=bound)

    def goals(o):
        ffp, z1, z0 = o['ffp'], o['z1'], o['z0']
        cs, sn = o['cs'], o['sn']
        g = [('rows 360 degrees apart are identical', z3.And(
            eq_term(ffp.e_theta[0][0], ffp.e_theta[1][0]), eq_term(ffp.e_phi[0][0], ffp.e_phi[1][0]),
            *[eq_term(a, b) if symx.is_sym(a) or symx.is_sym(b) else z3.BoolVal(a == b)
              for a, b in zip(ffp.gain[0][0], ffp.gain[0][1])]))]
        # the code's own direction cosines at 0 and 90 degrees (np.e ** (-1j * rad)): solve
        # E_theta(0) = A c0 + B s0, E_theta(90) = A c1 + B s1 exactly for the x/y field components A, B
        acs = np.e ** (-1j * (np.array([0.0, 90.0]) / 180 * np.pi))
        c0, s0, c1, s1 = (Fraction(float(acs[0].real)), Fraction(float(-acs[0].imag)),
                          Fraction(float(acs[1].real)), Fraction(float(-acs[1].imag)))
        det = c0 * s1 - s0 * c1
        E0, E1 = SC.lift(z0.e_theta[0][0]), SC.lift(z0.e_theta[1][0])
        X = (E0 * s1 - E1 * s0) * (1 / det)
        Y = (E1 * c0 - E0 * c1) * (1 / det)
        # the two runs round their concrete sub-expressions differently (1e-17 relative), so the identity is
        # asserted within 1e-9 of the coefficient sum, decided in LRA on the monomial relaxation (box: all
        # current components and cos/sin in [-1, 1])
        for nm, lhs, rhs in (('zenith: E_theta(phi) = cos(phi) X + sin(phi) Y', SC.lift(z1.e_theta[0][0]), X * cs + Y * sn),
                             ('zenith: E_phi(phi) = -sin(phi) X + cos(phi) Y', SC.lift(z1.e_phi[0][0]), Y * cs - X * sn)):
            d = lhs - rhs
            if d.dr is not None or rhs.dr is not None:
                raise symx.HarnessError('zenith identity: unexpected denominators')
            scale = o['bound']                # sound upper bound of any |E| for currents in the box
            g.append((nm, z3.Not(poly.relaxation_query([d.nr, d.ni], {}, Fraction(scale) / 10 ** 9, default=1))))
        return g

    def replay(c, gn, out):
        m = catalogue.build(mm, gname)
        m.current = np.array([complex(x) for x in c['I']])
        m.power = 1.0
        p1 = float(c['phi'])
        m.compute_far_field(mm.Angle(35.0, 10.0, 1), mm.Angle(p1, 360.0, 2))
        f = m.far_field
        sc = max(abs(f.e_theta).max(), abs(f.e_phi).max(), 1e-300)
        if abs(f.e_theta[0][0] - f.e_theta[1][0]) > 1e-9 * sc or abs(f.e_phi[0][0] - f.e_phi[1][0]) > 1e-9 * sc \
                or not np.allclose(f.gain[0][0], f.gain[0][1], rtol=0, atol=1e-6):
            return ('C10:periodic:360', '%s: rows at phi=%r and phi+360 differ' % (gname, p1), dict(kind='periodic'))
        tot = []
        for p in (p1, p1 + 77.0, 0.0):
            m.compute_far_field(mm.Angle(0.0, 10.0, 1), mm.Angle(p, 0.0, 1))
            tot.append(abs(m.far_field.e_theta[0][0]) ** 2 + abs(m.far_field.e_phi[0][0]) ** 2)
        if not (close(tot[0], tot[1], 1e-9, 1e-300) and close(tot[0], tot[2], 1e-9, 1e-300)):
            return ('C10:periodic:zenith', '%s: total zenith field depends on the azimuth: %r' % (gname, tot),
                    dict(kind='periodic'))
        return None
    prove_paths(ck, 'periodic-%s' % gname, fn, goals, replay, max_paths=64, fork_policy='assume', twin_timeout_ms=300, prefer_true=('compute_far_field',),
                timeout_ms=20000 if ck.tier == 'quick' else 120000)


def periodic_zenith(ck, sh, mm, gname):
    """(D') directions 360 degrees apart in the ZENITH angle give identical rows too (35 / 395 / -325 degrees; over ground these all
    point into the upper hemisphere), for all currents in the box; E_theta / E_phi compared within 1e-9 of a sound bound of |E|
    (the direction cosines of 35 and 395 degrees differ in the last bits)."""
    M = sh.mininec

    def fn():
        m = catalogue.build(M, gname)
        n = len(m.pulses)
        I = _box_currents(n, 1.0)
        _set_currents(m, I)
        m.power = 1.0
        with symx.object_arrays():
            m.compute_far_field(M.Angle(-325.0, 360.0, 3), M.Angle(20.0, 10.0, 1))
            ff = m.far_field
        k = 2 * math.pi / (299.8 / float(m.f))
        bound = farfield.G0 * k / 2 * sum(float(np.linalg.norm(np.asarray(p.point, dtype=float) - np.asarray(p.ends[0], dtype=float)))
                                          + float(np.linalg.norm(np.asarray(p.ends[1], dtype=float) - np.asarray(p.point, dtype=float)))
                                          for p in m.pulses) * 2 * 1.5
        return dict(inputs=dict(I=I), ff=ff, bound=bound)

    def goals(o):
        ff = o['ff']
        g = []
        for j, nm in ((0, '-325'), (2, '395')):
            ds = []
            for arr in (ff.e_theta, ff.e_phi):
                d = SC.lift(arr[0][j]) - SC.lift(arr[0][1])
                if d.dr is not None:
                    raise symx.HarnessError('zenith periodicity: unexpected denominators')
                ds += [d.nr, d.ni]
            g.append(('the row at zenith %s degrees is the row at 35 degrees' % nm, z3.Not(poly.relaxation_query(ds, {}, Fraction(o['bound']) / 10 ** 9, default=1))))
        return g

    def replay(c, gn, out):
        m = catalogue.build(mm, gname)
        I = np.array([complex(x) for x in c['I']])
        if np.abs(I).max() < 1e-6:
            I = np.array([complex(1 + 0.3 * k, 0.5 - 0.2 * k) for k in range(len(I))])
        m.current, m.power = I, 1.0
        m.compute_far_field(mm.Angle(-325.0, 360.0, 3), mm.Angle(20.0, 10.0, 1))
        f = m.far_field
        sc = max(abs(f.e_theta).max(), abs(f.e_phi).max(), 1e-300)
        for j, nm in ((0, -325.0), (2, 395.0)):
            if abs(f.e_theta[0][j] - f.e_theta[0][1]) > 1e-9 * sc or abs(f.e_phi[0][j] - f.e_phi[0][1]) > 1e-9 * sc \
                    or not np.allclose(f.gain[j][0], f.gain[1][0], rtol=0, atol=1e-6):
                return ('C10:periodic:360:zenith', '%s: the rows at zenith 35 and %g degrees (azimuth 20) differ: E_theta %r / %r, gains %s / %s'
                        % (gname, nm, complex(f.e_theta[0][1]), complex(f.e_theta[0][j]), list(f.gain[1][0]), list(f.gain[j][0])), dict(kind='periodic-zenith'))
        return None
    prove_paths(ck, 'periodic-zenith-%s' % gname, fn, goals, replay, max_paths=64, fork_policy='assume', twin_timeout_ms=300, prefer_true=('compute_far_field',),
                timeout_ms=20000 if ck.tier == 'quick' else 120000)


def rotation_lemma(ck, sh, mm):
    """|cX+sY|^2 + |-sX+cY|^2 = |X|^2 + |Y|^2 for all complex X, Y and c^2 + s^2 = 1."""
    def fn():
        X, Y = SC.var('X'), SC.var('Y')
        c_, s_ = SR.var('c'), SR.var('s')
        symx.ctx().assume((c_ * c_ + s_ * s_ == 1).t)
        return dict(inputs=dict(X=X, Y=Y, c=c_, s=s_), X=X, Y=Y, c=c_, s=s_)

    def goals(o):
        X, Y, c_, s_ = o['X'], o['Y'], o['c'], o['s']
        lhs = (X * c_ + Y * s_).abs2() + (Y * c_ - X * s_).abs2()
        return [('rotation lemma', eq_term(lhs, X.abs2() + Y.abs2()))]
    prove_paths(ck, 'rotation-lemma', fn, goals, lambda c, g, o: None)


def main(args):
    ck = Check('C10', args)
    ck.shadow_stats = symx.load().stats
    if ck.tier == 'quick':
        geos = ['G1', 'G2', 'G7', 'G8', 'G9', 'G16', 'G17', 'G18']      # G8, G16: non-vertical wires grounded at their second end
        parts = [('radiation_sum', (g, 1.0)) for g in geos]
        parts += [('tables', (g,)) for g in ('G1', 'G8')]
        parts += [('periodic', (g,)) for g in ('G2', 'G9')] + [('rotation_lemma', ())] + [('periodic_zenith', (g,)) for g in ('G2', 'G9')]
    else:
        geos = ['G1', 'G2', 'G5', 'G12', 'G13', 'G17', 'G7', 'G8', 'G9', 'G10', 'G14', 'G15', 'G16', 'G18']
        parts = [('radiation_sum', (g, s)) for g in geos for s in (1.0, 1e3, 1e-3)]
        parts += [('tables', (g,)) for g in ('G1', 'G2', 'G8', 'G9')]
        parts += [('periodic', (g,)) for g in ('G1', 'G2', 'G5', 'G9', 'G14')] + [('rotation_lemma', ())] + [('periodic_zenith', (g,)) for g in ('G1', 'G2', 'G8', 'G9', 'G14')]
    run_parallel(ck, 'checks.c10', parts)
    ck.assumptions += ['geometry: catalogue members (concrete); pulse currents arbitrary complex in a box; power, requested '
                       'power, distance arbitrary positive reals; azimuth symbolic via the rational circle parametrisation '
                       '(every angle except exactly 180 degrees from the base point)',
                       'log is an uninterpreted function: dBi entries are compared through the ARGUMENT of the log the code takes',
                       'float coefficients are exact rationals; tolerance 1e-9 of sum|coefficients| absorbs their rounding']
    ck.stubs += ['np.log -> uninterpreted function (spied to read its arguments)', 'np.sqrt -> defining equation']
    ck.outside += ['the 2 % comparison with the exact integral over straight half-segments (sinc-type integrals)',
                   'real (lossy) ground: C11', 'geometries outside the catalogue']
    return ck.finish('Real compute_far_field on symbolic currents/power/distance/azimuth; radiation-sum clause is decided in '
                     'linear real arithmetic against the geometry-only reference for all currents in a box; the table '
                     'identities (dBi vs V/m, scaling, periodicity, zenith) are polynomial identities decided by z3.')


if __name__ == '__main__':
    run_check('C10', main)
