"""C09 -- Kirchhoff current law and end conditions in the current report.

For every wire graph of the bound (every set partition of the labelled wire ends, i.e. every
order and direction; with and without ground) the real Mininec.__init__ (tags, segments, ground,
connections) builds the model, the pulse currents are arbitrary symbolic complex numbers, the real
currents_as_mininec writes the table (token formatter), and z3 decides for ALL currents:
  (a) the current printed on each junction end = total of the pulse currents through that end,
  (b) inflow over the ends of each junction sums to zero,
  (c) 'E' lines with zero current appear exactly at unconnected, ungrounded ends.
"""
import itertools
import multiprocessing as mp
import os
import time
import z3
import numpy as np

from .common import Check, run_check, close
import symx
from symx import SR, SC, core, tokens
from symx.core import eq_term
from refmodels import kcl, topo, catalogue


def _report(M, sh, m, I):
    cur = np.empty(len(I), dtype=object)
    cur[:] = I
    m.current = cur
    old = M.format_float
    M.format_float = tokens.format_float_stub
    try:
        with symx.object_arrays():
            return m.currents_as_mininec()
    finally:
        M.format_float = old


def _expected(m, I):
    """[(object position, [(kind, value or None) for end 0, end 1])] from the reference model."""
    js = kcl.junctions(m)
    at_j = {}
    for ji, j in enumerate(js):
        for g, e, p, gnd in j:
            at_j[(id(g), e)] = ji
    exp = []
    for g in m.geo:
        ends = []
        for e in (0, 1):
            p = np.asarray(g.endpoints[e], dtype=float)
            tol = 1e-3 * kcl.min_seglen(m)
            gnd = m.media is not None and abs(p[2]) < tol
            if gnd:
                ends.append(('G', None, None))
            elif (id(g), e) in at_j:
                ends.append(('J', kcl.through_current(m, I, g, e), at_j[(id(g), e)]))
            else:
                ends.append(('E', 0.0, None))
        exp.append(ends)
    return exp, js


def check_model(mk_shadow, mk_real, name, M, sh, mm, qt):
    """One topology: returns list of (obligation name, verdict, detail, violation or None)."""
    out = []

    def fn():
        m = mk_shadow()
        n = len(m.pulses)
        def one_report(I, prefix):
            text = _report(M, sh, m, I)
            rep = kcl.parse_current_report(text, m)
            exp, js = _expected(m, I)
            goals = {prefix + 'junction-end current = through current': [], prefix + 'KCL': [], prefix + 'end lines': []}
            structure_ok = True
            printed = {}
            for gi, ends in enumerate(exp):
                marks = list(rep[gi]['marks'])
                want = [(k, v, j) for (k, v, j) in ends if k != 'G']
                if len(marks) != len(want):
                    structure_ok = False
                    continue
                # a mark printed before any row is end 1; marks keep end order
                for (kind, rows_before, fields), (wk, wv, wj), e in zip(
                        marks, want, [e for e, x in enumerate(ends) if x[0] != 'G']):
                    if kind != wk:
                        structure_ok = False
                        continue
                    if kind == 'E':
                        ok = all(f.strip() == '0' for f in fields[:4])
                        goals[prefix + 'end lines'].append(z3.BoolVal(ok))
                    else:
                        c = SC(tokens.read_exact(fields[0]), tokens.read_exact(fields[1]))
                        printed[(gi, e)] = (c, wj)
                        goals[prefix + 'junction-end current = through current'].append(eq_term(c, wv))
            # KCL on the printed values: + at second ends, - at first ends
            for ji in range(len(js)):
                tot = SC(0.0, 0.0)
                cnt = 0
                for (gi, e), (c, wj) in printed.items():
                    if wj == ji:
                        tot = tot + (c if e == 1 else -c)
                        cnt += 1
                if cnt == len(js[ji]):
                    goals[prefix + 'KCL'].append(eq_term(tot, 0j))
                else:
                    structure_ok = False
            return goals, structure_ok, len(js)
        I = [SC.var('I%d' % k) for k in range(n)]
        goals, structure_ok, nj = one_report(I, '')
        # the same object solved again (other excitation, same frequency): the report is written a second time for new currents
        I2 = [SC.var('J%d' % k) for k in range(n)]
        g2, ok2, _ = one_report(I2, 'second solution on the same object: ')
        goals.update(g2)
        structure_ok = structure_ok and ok2
        return dict(I=I, I2=I2, goals=goals, structure_ok=structure_ok, n=n, njunc=nj)

    paths = symx.explore(fn, query_timeout_ms=qt, max_paths=20)
    stats = dict(paths=len(paths), solver_s=paths.solver_s, queries=paths.queries)
    for pi, p in enumerate(paths):
        if p.exc is not None:
            raise symx.HarnessError('%s: %r' % (name, p.exc)) from p.exc
        o = p.value
        prem = p.pc + p.axioms
        if not o['structure_ok']:
            viol = replay(mk_real, mm, name, None)
            out.append((name + '/structure', 'violation' if viol else 'spurious', 'J/E lines do not match the wire ends', viol))
            continue
        for gname, gl in o['goals'].items():
            if not gl:
                continue
            s = z3.Solver()
            s.set('timeout', qt)
            s.add(prem)
            s.add(z3.Not(z3.And(*gl)))
            t = time.time()
            r = str(s.check())
            stats['solver_s'] += time.time() - t
            stats['queries'] += 1
            oname = '%s/%s' % (name, gname)
            if r == 'unsat':
                out.append((oname, 'discharged', None, None))
            elif r == 'unknown':
                out.append((oname, 'inconclusive', None, None))
            else:
                mdl = s.model()
                Ic = [core.model_value(mdl, x) for x in o['I']]
                Ic2 = [core.model_value(mdl, x) for x in o['I2']] if gname.startswith('second') else None
                viol = replay(mk_real, mm, name, Ic, Ic2)
                out.append((oname, 'violation' if viol else 'spurious', dict(currents=[str(x) for x in Ic]), viol))
    return out, stats


def replay(mk_real, mm, name, Ic, Ic2=None):
    """Concrete replay on the untouched package with the real format_float (Ic2: the report is written for Ic first and then,
    on the same object, for the second solution Ic2, which is the one evaluated)."""
    m = mk_real()
    n = len(m.pulses)
    if Ic is None:
        Ic = [complex(1 + k, 0.5 * k - 1) for k in range(n)]
    m.current = np.array([complex(x) for x in Ic])
    text = m.currents_as_mininec()
    if Ic2 is not None:
        if max(abs(complex(x)) for x in Ic2) == 0 or all(complex(a) == complex(b) for a, b in zip(Ic, Ic2)):
            Ic2 = [complex(0.5 - k, 2 + 0.25 * k) for k in range(n)]
        m.current = np.array([complex(x) for x in Ic2])
        text = m.currents_as_mininec()
        name = name + ' (second solution on the same object)'
        Ic = Ic2
    rep = kcl.parse_current_report(text, m)
    exp, js = _expected(m, m.current)
    scale = max(abs(m.current).max(), 1e-300)
    sums = {}
    cnts = {}
    for gi, ends in enumerate(exp):
        marks = list(rep[gi]['marks'])
        want = [(k, v, j) for (k, v, j) in ends if k != 'G']
        if len(marks) != len(want):
            return ('C09:structure', '%s: object %d prints %d end lines, topology needs %d' % (
                name, gi + 1, len(marks), len(want)), dict(kind='structure', model=name))
        for (kind, rows_before, fields), (wk, wv, wj), e in zip(
                marks, want, [e for e, x in enumerate(ends) if x[0] != 'G']):
            if kind != wk:
                return ('C09:structure', '%s: object %d end %d printed as %s, expected %s' % (
                    name, gi + 1, e + 1, kind, wk), dict(kind='structure', model=name))
            if kind == 'E':
                if any(float(f) != 0 for f in fields[:4]):
                    return ('C09:end-line', '%s: free end printed with non-zero current' % name, dict(model=name))
                continue
            c = complex(float(fields[0]), float(fields[1]))
            if abs(c - wv) > 2e-6 * scale + 1e-6 * abs(wv):
                jp = [p for p in m.pulses if np.linalg.norm(np.asarray(p.point) - np.asarray(m.geo[gi].endpoints[e])) < 1e-9
                      and any(gg is m.geo[gi] for gg in p.geo)]
                # what exactly is printed instead?  (keeps the known-finding key specific)
                how = 'other'
                if len(jp) > 1 and abs(abs(c) - abs(m.current[jp[-1].idx])) <= 2e-6 * scale:
                    how = 'only-last-pulse-printed'
                key = 'C09:junction-end-current:end%d:%s-pulses:%s' % (e + 1, 'several' if len(jp) > 1 else 'one', how)
                return (key, '%s: object %d end %d prints junction current %r, pulse currents through that end sum to %r'
                        % (name, gi + 1, e + 1, c, complex(wv)), dict(kind='junction', model=name, currents=[str(x) for x in Ic]))
            sums[wj] = sums.get(wj, 0) + (c if e == 1 else -c)
            cnts[wj] = cnts.get(wj, 0) + 1
    for ji, s in sums.items():
        if abs(s) > 1e-5 * scale:
            return ('C09:kcl', '%s: printed junction currents sum to %r, not 0' % (name, s), dict(kind='kcl', model=name))
    return None


def job(args):
    kind, spec, qt = args
    sh = symx.load()
    M = sh.mininec
    mm = symx.real_mininec()
    res = []
    stats = dict(paths=0, solver_s=0.0, queries=0)
    with symx.shadow.trace_functions(sh):
        for name, wires, ground in spec:
            if kind == 'topo':
                mk_s = lambda: topo.build(M, wires, ground)
                mk_r = lambda: topo.build(mm, wires, ground)
            else:
                mk_s = lambda: catalogue.build(M, wires)
                mk_r = lambda: catalogue.build(mm, wires)
            o, st = check_model(mk_s, mk_r, name, M, sh, mm, qt)
            res.extend(o)
            for k in stats:
                stats[k] += st[k]
    return res, stats, sorted(sh.entered)


def main(args):
    ck = Check('C09', args)
    ck.shadow_stats = symx.load().stats
    qt = 10000 if ck.tier == 'quick' else 60000
    specs = []
    if ck.tier == 'quick':
        plan = [(1, False, (2,)), (1, True, (2,)), (2, False, (1, 2)), (2, True, (2,)), (3, False, (2,)), (3, True, (1,))]
    else:
        plan = [(1, False, (1, 2, 3)), (1, True, (1, 2, 3)), (2, False, (1, 2, 3)), (2, True, (1, 2)),
                (3, False, (1, 2)), (3, True, (1, 2)), (4, False, (2,)), (4, True, (1,))]
    ntopo = 0
    for nw, gnd, nsegs in plan:
        for wires, desc in topo.topologies(nw, ground=gnd, nsegs=nsegs):
            if gnd and not desc['grounded'] and nw > 2:
                continue            # identical to the free-space member except for the image: skip duplicates
            if len(set(desc['nseg'])) > 1 and nw > 2:
                continue            # mixed segment counts only for <= 2 wires
            name = 'T%d%s-%s-%s-n%s' % (nw, 'g' if gnd else 'f', '+'.join('='.join(b) for b in desc['partition']) or 'free',
                                        ','.join(desc['grounded']) or '-', ''.join(map(str, desc['nseg'])))
            specs.append((name, wires, gnd))
            ntopo += 1
    cat = [(g, g, None) for g in ('G2', 'G3', 'G4', 'G5', 'G6', 'G9', 'G10', 'G11', 'G12', 'G13', 'G25', 'G26', 'G27', 'G21', 'G22', 'G31')]
    chunks = [('topo', specs[i::15], qt) for i in range(15)] + [('cat', cat, qt)]
    with mp.Pool(min(16, os.cpu_count() or 1)) as pool:
        results = pool.map(job, chunks, chunksize=1)
    funcs = set()
    for res, st, fn in results:
        funcs.update(fn)
        ck.paths += st['paths']
        ck.solver_s += st['solver_s']
        ck.queries += st['queries']
        for oname, verdict, detail, viol in res:
            if verdict == 'violation':
                key, what, rd = viol
                verdict = ck.report_violation(key, what, rd)
            ck.record(oname, verdict, detail,
                      sample=dict(obligation=oname, symbolic_inputs='all pulse currents (complex)', verdict=verdict))
    ck.twin('models', ck.paths > 0)
    ck.functions = funcs
    ck.bounds.update(topologies=ntopo, plan=[dict(wires=a, ground=b, segments=c) for a, b, c in plan],
                     catalogue=[c[0] for c in cat])
    ck.assumptions += ['wire graphs: every set partition of the labelled ends of 1..3 (thorough: 4) wires with junctions of '
                       '<= 5 ends, one concrete generic-position embedding per graph; pulse currents arbitrary complex',
                       'format_float replaced by an exact token formatter (its own accuracy is C19)']
    ck.stubs += ['util.format_float -> exact token formatter']
    ck.outside += ['graphs with more wires than the bound', 'coordinates other than the generic-position embedding '
                   '(the topology code only depends on which ends coincide)']
    return ck.finish('Real Mininec.__init__ + currents_as_mininec on symbolic pulse currents for every wire graph of the bound; '
                     'the three clauses are linear identities in the currents decided by z3 for all currents.')


if __name__ == '__main__':
    run_check('C09', main)
