"""C13 -- segmentation tiles each object; tapers, arcs, helices, transforms as documented.

taper1/taper2 (1-D form), compute_equal_segments, Arc/Helix constructors, Rotation_Matrix and the
rotate/translate/scale methods run on symbolic lengths, radii, limits, angles and vectors; the
segment count is concrete per job.
"""
import math
from fractions import Fraction
import z3
import numpy as np

from .common import Check, run_check, prove_paths, close, run_parallel
import symx
from symx import SR, SC, SI, core, npf, tokens
from symx.core import eq_term
from refmodels import symtopo
from .c08 import pos


# ---------------------------------------------------------------------------------------------
# (a) tapers
# ---------------------------------------------------------------------------------------------

def _taper_inputs(with_max, with_min):
    c = symx.ctx()
    l = pos('l', 1e-3, 1e4)
    r = pos('r', 1e-6, 10)
    kw = {}
    inp = dict(l=l, r=r)
    if with_min:
        kw['min_t'] = inp['min_t'] = pos('min_t', 1e-6, 1e4)
    if with_max:
        kw['max_t'] = inp['max_t'] = pos('max_t', 1e-6, 1e4)
    return l, r, kw, inp


def taper(ck, sh, mm, which, n, with_min, with_max, end=0):
    T = sh.taper
    name = '%s-n%d%s%s%s' % (which, n, '-min' if with_min else '', '-max' if with_max else '', '-end1' if end else '')

    def fn():
        c = symx.ctx()
        l, r, kw, inp = _taper_inputs(with_max, with_min)
        min_eff = core.smax(2.5 * r, kw.get('min_t', 0))
        # documented preconditions of the generators (their violation is an assertion / Taper_Error: C20)
        c.assume((l / n >= min_eff).t)
        if with_max:
            c.assume((min_eff <= kw['max_t']).t)
            c.assume((l / n <= kw['max_t']).t)
        if which == 'taper1':
            segs = list(T.taper1(0.0, l, n, r, end=end, **kw))
        else:
            segs = list(T.taper2(0.0, l, n, r, **kw))
        return dict(inputs=inp, segs=segs, l=l, r=r, min_eff=min_eff, kw=kw)

    def goals(o):
        segs, l = o['segs'], o['l']
        g = [('exactly n pieces', z3.BoolVal(len(segs) == n))]
        if len(segs) != n:
            return g
        g.append(('chains from first to last end point', z3.And(
            eq_term(segs[0][0], 0.0), eq_term(segs[-1][1], l),
            *[eq_term(segs[i][1], segs[i + 1][0]) for i in range(n - 1)])))
        lens = [SR.lift(b - a) for a, b in segs]
        g.append(('every piece has positive length', z3.And(*[(x > 0).t for x in lens])))
        # the code's own slack eps = minl/10 <= l/npieces/10 or min_eff/10; we allow 10 % of the smallest piece
        mn = core.smin(*lens)
        eps = mn * Fraction(1, 10)
        g.append(('pieces >= max(2.5 r, min) (within the code\'s eps)', z3.And(*[(x >= o['min_eff'] - eps).t for x in lens])))
        if 'max_t' in o['kw']:
            g.append(('pieces <= max (within the code\'s eps)', z3.And(*[(x <= o['kw']['max_t'] + eps).t for x in lens])))
        # growth: from the tapered end(s) by a factor of at most 2.1 per step
        if which == 'taper1':
            order = lens if not end else lens[::-1]
            g.append(('monotone from the tapered end, ratio <= 2.1', z3.And(
                *[z3.And((order[i + 1] >= order[i] - eps).t, (order[i + 1] <= order[i] * Fraction(21, 10) + eps).t)
                  for i in range(n - 1)])))
        else:
            g.append(('neighbouring pieces differ by a factor <= 2.1', z3.And(
                *[z3.And((lens[i + 1] <= lens[i] * Fraction(21, 10) + eps).t, (lens[i] <= lens[i + 1] * Fraction(21, 10) + eps).t)
                  for i in range(n - 1)])))
            g.append(('two-sided taper is symmetric', z3.And(
                *[z3.And((lens[i] - lens[n - 1 - i] <= eps).t, (lens[n - 1 - i] - lens[i] <= eps).t) for i in range(n // 2)])))
        return g

    def replay(c, gname, out):
        return replay_taper(mm, which, n, c, end)

    prove_paths(ck, name, fn, goals, replay, max_paths=4000, expect_exc=(AssertionError, sh.taper.Taper_Error),
                timeout_ms=15000 if ck.tier == 'quick' else 60000)
    ck.bounds.setdefault('tapers', []).append(name)


def replay_taper(mm, which, n, c, end):
    import mininec.taper as T
    kw = {k: c[k] for k in ('min_t', 'max_t') if k in c}
    l, r = c['l'], c['r']
    try:
        if which == 'taper1':
            segs = list(T.taper1(0.0, l, n, r, end=end, **kw))
        else:
            segs = list(T.taper2(0.0, l, n, r, **kw))
    except (AssertionError, T.Taper_Error):
        return None
    key = 'C13:%s' % which
    desc = '%s(0, %r, %d, %r, %s)' % (which, l, n, r, kw)
    if len(segs) != n:
        return (key + ':count', '%s yields %d pieces' % (desc, len(segs)), dict(kind='taper'))
    lens = [b - a for a, b in segs]
    tol = 1e-9 * l
    if abs(segs[0][0]) > tol or abs(segs[-1][1] - l) > tol or any(abs(segs[i][1] - segs[i + 1][0]) > tol for i in range(n - 1)):
        return (key + ':tiling', '%s does not tile the wire: %s' % (desc, segs), dict(kind='taper'))
    if min(lens) <= 0:
        return (key + ':positive', '%s has a non-positive piece: %s' % (desc, lens), dict(kind='taper'))
    eps = min(lens) / 10 * (1 + 1e-9)
    mn = max(2.5 * r, kw.get('min_t', 0))
    if min(lens) < mn - eps:
        return (key + ':min', '%s: piece %r below max(2.5 r, min) = %r' % (desc, min(lens), mn), dict(kind='taper'))
    if 'max_t' in kw and max(lens) > kw['max_t'] + eps:
        return (key + ':max', '%s: piece %r above max %r' % (desc, max(lens), kw['max_t']), dict(kind='taper'))
    order = lens if not end else lens[::-1]
    for i in range(n - 1):
        if which == 'taper1':
            if order[i + 1] < order[i] - eps or order[i + 1] > 2.1 * order[i] + eps:
                return (key + ':ratio', '%s: pieces %s do not grow by <= 2.1 from the tapered end' % (desc, lens), dict(kind='taper'))
        elif lens[i + 1] > 2.1 * lens[i] + eps or lens[i] > 2.1 * lens[i + 1] + eps:
            return (key + ':ratio', '%s: neighbouring pieces %s differ by more than 2.1' % (desc, lens), dict(kind='taper'))
    if which == 'taper2' and any(abs(lens[i] - lens[n - 1 - i]) > eps for i in range(n // 2)):
        return (key + ':symmetry', '%s: not symmetric: %s' % (desc, lens), dict(kind='taper'))
    return None


def taper_mirror(ck, sh, mm, n):
    """taper1(end=1) is the mirror of end=0 on the reversed wire (3-D points, symbolic)."""
    T = sh.taper

    def fn():
        c = symx.ctx()
        l = pos('l', 1e-3, 1e4)
        r = pos('r', 1e-6, 10)
        c.assume((l / n >= 2.5 * r).t)
        a = list(T.taper1(0.0, l, n, r, end=0))
        b = list(T.taper1(0.0, l, n, r, end=1))
        return dict(inputs=dict(l=l, r=r), a=a, b=b, l=l)

    def goals(o):
        a, b, l = o['a'], o['b'], o['l']
        return [('end=1 is the mirror image of end=0', z3.And(
            z3.BoolVal(len(a) == len(b)),
            *[z3.And(eq_term(b[n - 1 - i][0], l - a[i][1]), eq_term(b[n - 1 - i][1], l - a[i][0])) for i in range(min(len(a), len(b)))]))]

    def replay(c, gn, out):
        import mininec.taper as T2
        a = list(T2.taper1(0.0, c['l'], n, c['r'], end=0))
        b = list(T2.taper1(0.0, c['l'], n, c['r'], end=1))
        for i in range(n):
            if abs(b[n - 1 - i][0] - (c['l'] - a[i][1])) > 1e-9 * c['l'] or abs(b[n - 1 - i][1] - (c['l'] - a[i][0])) > 1e-9 * c['l']:
                return ('C13:taper1:mirror', 'taper1 end=1 is not the mirror of end=0 for l=%r r=%r n=%d' % (c['l'], c['r'], n), dict(kind='mirror'))
        return None
    prove_paths(ck, 'taper1-mirror-n%d' % n, fn, goals, replay, max_paths=2000,
                expect_exc=(AssertionError, sh.taper.Taper_Error))


# ---------------------------------------------------------------------------------------------
# (b) equal segments of a wire with symbolic end points
# ---------------------------------------------------------------------------------------------

def taper_wire(ck, sh, mm, segtype, coated):
    """A tapered wire hands ITS OWN data to the taper generator: end points and radius as they are after scaling
    (equivalent radius when coated), the limits the user gave, the tapered end.  The generators are spied on
    (their contract is decided by the `taper` jobs); radius, scale factor, limits symbolic."""
    M = sh.mininec

    def fn():
        c = symx.ctx()
        r, s = pos('r', 1e-4, 0.1), pos('s', 0.01, 100)
        mn, mx = pos('min_t', 1e-6, 1e3), pos('max_t', 1e-6, 1e3)
        calls = []

        def spy(which, real):
            import inspect
            sig = inspect.signature(real)

            def gen(*a, **k):
                ba = sig.bind(*a, **k)          # however the caller passes them: by the generator's own parameter names
                args = dict(ba.arguments)
                names = list(sig.parameters)
                p1, p2, n, rr = (args.pop(names[i]) for i in range(4))
                calls.append((which, p1, p2, n, rr, args))
                a_, b_ = np.asarray(p1, dtype=object), np.asarray(p2, dtype=object)
                for i in range(n):                      # any tiling will do: only the arguments are under test here
                    yield a_ + (b_ - a_) * (i / n), a_ + (b_ - a_) * ((i + 1) / n)
            return gen
        old = (M.taper1, M.taper2)
        M.taper1, M.taper2 = spy('taper1', old[0]), spy('taper2', old[1])
        an = symtopo.AbstractNorm()
        oldn = (npf.state.norm_mode, getattr(npf.state, 'abstract_norm', None))
        npf.state.norm_mode, npf.state.abstract_norm = 'abstract', an
        try:
            with symx.object_arrays():
                w = M.Wire(4, 0.1, 0.2, 0.3, 2.1, 0.5, 0.7, r)
                w.segtype = segtype
                w.taper_min, w.taper_max = mn, mx
                w.n = 0
                if coated:
                    M.Insulation_Load(w, r * 2, 3.0)
                w.scale(s)
                w.compute_segments()
                r_act = w.r
        finally:
            M.taper1, M.taper2 = old
            npf.state.norm_mode, npf.state.abstract_norm = oldn
        return dict(inputs=dict(r=r, s=s, min_t=mn, max_t=mx), calls=calls, r_act=r_act, p1=list(w.p1), p2=list(w.p2), mn=mn, mx=mx, r=r, s=s)

    def goals(o):
        if len(o['calls']) != 1:
            return [('the taper generator is called once', z3.BoolVal(False))]
        which, p1, p2, n, rr, kw = o['calls'][0]
        want = 'taper2' if segtype == 3 else 'taper1'
        g = [('generator and tapered end follow the taper type',
              z3.BoolVal(which == want and n == 4 and (segtype == 3 or kw.get('end') == segtype - 1)))]
        g.append(('radius handed to the generator is the actual (scaled / equivalent) radius of the wire', eq_term(rr, o['r_act'])))
        if not coated:
            g.append(('actual radius is the scaled radius', eq_term(o['r_act'], o['r'] * o['s'])))
        g.append(('end points handed over are the scaled end points', z3.And(
            *[eq_term(a, b) for a, b in zip(list(p1) + list(p2), o['p1'] + o['p2'])],
            *[eq_term(a, SR.lift(b) * o['s']) for a, b in zip(list(p1) + list(p2), (0.1, 0.2, 0.3, 2.1, 0.5, 0.7))])))
        g.append(('limits handed over are the user\'s limits', z3.And(eq_term(kw.get('min_t', 0.0), o['mn']), eq_term(kw.get('max_t', 0.0), o['mx']))))
        return g

    def replay(c, gn, out):
        r, s = float(c['r']), float(c['s'])
        w = mm.Wire(8, 0.0, 0.0, 0.0, 1.0, 0.0, 0.0, r)
        w.segtype = segtype
        w.n = 0
        if coated:
            mm.Insulation_Load(w, r * 2, 3.0)
        w.scale(s)
        w.compute_segments()
        if w.segtype != segtype:
            return None                          # fell back to equal segments: no taper claim to check
        lens = [sg.seg_len for sg in w.segments]
        eps = min(lens) / 10 * (1 + 1e-9)
        if min(lens) < 2.5 * w.r - eps:
            return ('C13:taper-wire:min', 'Wire(8, length 1, r=%r) scaled by %r, taper type %d%s: shortest segment %r is below 2.5 radii = %r'
                    % (r, s, segtype, ', coated' if coated else '', min(lens), 2.5 * w.r), dict(kind='taper-wire', segtype=segtype))
        w2 = mm.Wire(8, 0.0, 0.0, 0.0, s, 0.0, 0.0, r * s)
        w2.segtype = segtype
        w2.n = 0
        if coated:
            mm.Insulation_Load(w2, r * 2 * s, 3.0)
        w2.compute_segments()
        l2 = [sg.seg_len for sg in w2.segments]
        if w2.segtype == segtype and not np.allclose(lens, l2, rtol=1e-9):
            return ('C13:taper-wire:scaled', 'taper type %d: a wire scaled by %r is segmented %s, the same wire entered at that size %s'
                    % (segtype, s, lens, l2), dict(kind='taper-wire', segtype=segtype))
        return None
    prove_paths(ck, 'taper-wire-type%d%s' % (segtype, '-coated' if coated else ''), fn, goals, replay, max_paths=64,
                expect_exc=(ValueError,), timeout_ms=15000)


def equal_segments(ck, sh, mm, n):
    M = sh.mininec

    def fn():
        c = symx.ctx()
        p1 = [SR.var('p1' + a) for a in 'xyz']
        p2 = [SR.var('p2' + a) for a in 'xyz']
        c.assume(z3.Or(*[a.n != b.n for a, b in zip(p1, p2)]))
        r = pos('r', 1e-6, 1)
        an = symtopo.AbstractNorm()
        old = (npf.state.norm_mode, getattr(npf.state, 'abstract_norm', None))
        npf.state.norm_mode, npf.state.abstract_norm = 'abstract', an
        try:
            with symx.object_arrays():
                w = M.Wire(n, *p1, *p2, r)
                w.compute_segments()
        finally:
            npf.state.norm_mode, npf.state.abstract_norm = old
        return dict(inputs=dict(p1=p1, p2=p2, r=r), w=w, p1=p1, p2=p2)

    def veq(a, b):
        return z3.And(*[eq_term(x, y) for x, y in zip(a, b)])

    def goals(o):
        w = o['w']
        segs = w.segments
        g = [('exactly n segments', z3.BoolVal(len(segs) == n))]
        g.append(('chain from end 1 to end 2', z3.And(veq(segs[0].p1, o['p1']), veq(segs[-1].p2, o['p2']),
                                                     *[veq(segs[i].p2, segs[i + 1].p1) for i in range(len(segs) - 1)])))
        g.append(('equal positive lengths = wire length / n', z3.And(
            *[z3.And(eq_term(s.seg_len * n, w.wire_len), (SR.lift(s.seg_len) > 0).t) for s in segs])))
        g.append(('direction = unit vector of the wire', z3.And(
            *[veq(s.dirvec * w.wire_len, [b - a for a, b in zip(o['p1'], o['p2'])]) for s in segs])))
        return g

    def replay(c, gn, out):
        w = mm.Wire(n, *c['p1'], *c['p2'], c['r'])
        w.compute_segments()
        L = float(np.linalg.norm(np.array(c['p2']) - np.array(c['p1'])))
        ok = len(w.segments) == n and np.allclose(w.segments[0].p1, c['p1']) and np.allclose(w.segments[-1].p2, c['p2'], rtol=1e-9, atol=1e-9 * L)
        ok = ok and all(np.allclose(w.segments[i].p2, w.segments[i + 1].p1) for i in range(n - 1))
        ok = ok and all(close(s.seg_len, L / n, 1e-9) for s in w.segments)
        if ok:
            return None
        return ('C13:equal-segments', 'Wire(%d, %s, %s) is not cut into n equal chained segments' % (n, c['p1'], c['p2']), dict(kind='equal'))
    prove_paths(ck, 'equal-n%d' % n, fn, goals, replay, expect_exc=(ValueError,))
    ck.bounds.setdefault('equal', []).append(n)


# ---------------------------------------------------------------------------------------------
# (c) arcs, (d) helices
# ---------------------------------------------------------------------------------------------

def arc(ck, sh, mm, n):
    M = sh.mininec

    def fn():
        c = symx.ctx()
        R = pos('R', 1e-3, 1e3)
        a1, a2 = SR.var('a1'), SR.var('a2')
        c.assume(z3.And(a1.n >= -360, a1.n <= 360, a2.n >= -360, a2.n <= 720))
        r = pos('r', 1e-6, 1)
        known = c.__dict__.setdefault('circ_known', [])
        with symx.object_arrays():
            A = M.Arc(n, R, a1, a2, r)
        return dict(inputs=dict(R=R, a1=a1, a2=a2, r=r), A=A, R=R, a1=a1, a2=a2, known=list(known))

    def goals(o):
        A, R = o['A'], o['R']
        se = A.segends
        g = [('n+1 segment ends', z3.BoolVal(len(se) == n + 1))]
        if len(se) != n + 1:
            return g
        g.append(('ends lie on the circle x^2+z^2=R^2 in the plane y=0', z3.And(
            *[z3.And(eq_term(p[0] * p[0] + p[2] * p[2], R * R), eq_term(p[1], 0.0)) for p in se])))
        # uniform angular steps from ang1 to ang2, measured from X towards Z: the code's cos/sin arguments
        a1r, a2r = o['a1'] / 180 * np.pi, o['a2'] / 180 * np.pi
        want = [a1r + (a2r - a1r) / n * i for i in range(n)] + [a2r]
        known = o['known']
        ok = []
        for i, p in enumerate(se):
            cands = [z3.And(eq_term(ang, want[i]), eq_term(p[0], R * pr[0]), eq_term(p[2], R * pr[1])) for ang, pr in known]
            ok.append(z3.Or(*cands) if cands else z3.BoolVal(False))
        g.append(('end i sits at angle a1 + i (a2-a1)/n: (R cos, 0, R sin)', z3.And(*ok)))
        return g

    def replay(c, gn, out):
        if gn == 'n+1 segment ends':
            # the number of ends depends on rounding somewhere: look for a witness among the usual spans and all counts 3..200
            for a1_, a2_ in ((c['a1'], c['a2']), (0.0, 360.0), (0.0, 90.0), (30.0, 150.0), (0.0, 270.0), (-90.0, 90.0), (10.0, 130.0)):
                for n_ in [n] + list(range(3, 201)):
                    try:
                        A = mm.Arc(n_, 1.0, a1_, a2_, 0.001)
                    except ValueError:
                        continue
                    if len(A.segends) != n_ + 1:
                        return ('C13:arc:count', 'Arc(%d, 1.0, %r, %r): %d segment ends instead of %d' % (n_, a1_, a2_, len(A.segends), n_ + 1), dict(kind='arc-count'))
            return None
        try:
            A = mm.Arc(n, c['R'], c['a1'], c['a2'], c['r'])
        except ValueError:
            return None
        for i, p in enumerate(A.segends):
            a = math.radians(c['a1'] + (c['a2'] - c['a1']) / n * i)
            want = (c['R'] * math.cos(a), 0.0, c['R'] * math.sin(a))
            if not np.allclose(p, want, rtol=1e-9, atol=1e-9 * c['R']):
                return ('C13:arc', 'Arc(%d, %r, %r, %r): end %d is %s, expected %s' % (n, c['R'], c['a1'], c['a2'], i, p, want), dict(kind='arc'))
        return None
    prove_paths(ck, 'arc-n%d' % n, fn, goals, replay, expect_exc=(ValueError,), max_paths=64)
    ck.bounds.setdefault('arc', []).append(n)


def helix(ck, sh, mm, n, sign_len, sign_turn):
    M = sh.mininec

    def fn():
        c = symx.ctx()
        L = pos('L', 1e-2, 1e2)
        T = pos('T', 1e-2, 1e2)
        rx1, ry1, rx2, ry2 = pos('rx1', 1e-3, 10), pos('ry1', 1e-3, 10), pos('rx2', 1e-3, 10), pos('ry2', 1e-3, 10)
        r = pos('r', 1e-6, 1)
        length = L if sign_len > 0 else -L
        turn = T if sign_turn > 0 else -T
        known = c.__dict__.setdefault('circ_known', [])
        with symx.object_arrays():
            H = M.Helix(n, length, turn, r, rx1, ry1, rx2, ry2)
        return dict(inputs=dict(L=L, T=T, rx1=rx1, ry1=ry1, rx2=rx2, ry2=ry2, r=r), H=H, L=L, T=T,
                    rad=(rx1, ry1, rx2, ry2), known=list(known))

    def goals(o):
        H, L, T = o['H'], o['L'], o['T']
        rx1, ry1, rx2, ry2 = o['rad']
        se = H.segends
        g = [('n+1 segment ends', z3.BoolVal(len(se) == n + 1))]
        on, zs = [], []
        for i, p in enumerate(se):
            f = Fraction(i / n)          # the double the code computes
            xm = rx1 + (rx2 - rx1) * f
            ym = ry1 + (ry2 - ry1) * f
            zs.append(eq_term(p[2], L * f))
            # (x/xm)^2 + (y/ym)^2 = 1   <=>  x^2 ym^2 + y^2 xm^2 = xm^2 ym^2
            on.append(eq_term(p[0] * p[0] * ym * ym + p[1] * p[1] * xm * xm, xm * xm * ym * ym))
        g.append(('z rises uniformly from 0 to |length|', z3.And(*zs)))
        g.append(('ends lie on the (radius-tapered) elliptical helix', z3.And(*on)))
        # angle argument: handedness sign * 2 pi * (z mod |T|)/|T|  i.e. angle*T = s*2pi*(z - q T) for an integer q
        s = 1 if sign_len * sign_turn > 0 else -1
        known = o['known']
        ang_ok = []
        for i, p in enumerate(se):
            f = Fraction(i / n)          # the double the code computes
            xm = rx1 + (rx2 - rx1) * f
            ym = ry1 + (ry2 - ry1) * f
            cands = []
            for ang, pr in known:
                q = z3.Int('q_%d_%d' % (i, len(cands)))
                # ang = s * 2pi * (z - qT)/T with 0 <= z - qT < T
                zq = L * f - SR(z3.ToReal(q)) * T
                turn = z3.And(eq_term(ang * T, zq * (s * 2 * np.pi)), (zq >= 0).t, (zq < T).t)
                if sign_len > 0:
                    pos_ok = z3.And(eq_term(p[0], xm * pr[0]), eq_term(p[1], ym * pr[1]))
                else:
                    pos_ok = z3.And(eq_term(p[0], -(xm * pr[1])), eq_term(p[1], ym * pr[0]))
                cands.append(z3.Exists([q], z3.And(turn, pos_ok)))
            # concrete angle 0 (first end): cos = 1, sin = 0
            if sign_len > 0:
                c0 = z3.And(eq_term(p[0], xm), eq_term(p[1], 0.0))
            else:
                c0 = z3.And(eq_term(p[0], 0.0), eq_term(p[1], ym))
            zero_turns = z3.Exists([z3.Int('q0_%d' % i)], eq_term(L * f, SR(z3.ToReal(z3.Int('q0_%d' % i))) * T))
            cands.append(z3.And(c0, zero_turns))
            ang_ok.append(z3.Or(*cands))
        g.append(('angle of end i = +-2 pi (z_i mod |T|)/|T| with the documented start point and handedness', z3.And(*ang_ok)))
        return g

    def replay(c, gn, out):
        length = c['L'] * sign_len
        turn = c['T'] * sign_turn
        try:
            H = mm.Helix(n, length, turn, c['r'], c['rx1'], c['ry1'], c['rx2'], c['ry2'])
        except ValueError:
            return None
        s = 1 if sign_len * sign_turn > 0 else -1
        for i, p in enumerate(H.segends):
            f = i / n
            z = f * c['L']
            xm = c['rx1'] + (c['rx2'] - c['rx1']) * f
            ym = c['ry1'] + (c['ry2'] - c['ry1']) * f
            a = s * 2 * math.pi * (z % c['T']) / c['T']
            want = (xm * math.cos(a), ym * math.sin(a), z) if sign_len > 0 else (-xm * math.sin(a), ym * math.cos(a), z)
            if not np.allclose(p, want, rtol=1e-7, atol=1e-7 * max(xm, ym, c['L'])):
                # near a turn boundary the float modulo may legitimately jump: tolerate full-turn ambiguity
                return ('C13:helix', 'Helix(%d, %r, %r, ...): end %d is %s, expected %s' % (n, length, turn, i, p, want), dict(kind='helix'))
        return None
    prove_paths(ck, 'helix-n%d-l%+d-t%+d' % (n, sign_len, sign_turn), fn, goals, replay, expect_exc=(ValueError,),
                max_paths=256, timeout_ms=20000 if ck.tier == 'quick' else 120000)
    ck.bounds.setdefault('helix', []).append((n, sign_len, sign_turn))


# ---------------------------------------------------------------------------------------------
# (e) rotations / translations / scaling
# ---------------------------------------------------------------------------------------------

def transforms(ck, sh, mm, axes):
    """Rotation_Matrix with symbolic angles about the given axes (others 0) is orthogonal with det +1;
    Wire.rotate/translate/scale act on both end points; scaling multiplies the radius."""
    M = sh.mininec

    def fn():
        c = symx.ctx()
        ang = [SR.var('rot' + a) if a in axes else 0.0 for a in 'xyz']
        for a in ang:
            if symx.is_sym(a):
                c.assume(z3.And(a.n >= -360, a.n <= 360))
        tr = [SR.var('t' + a) for a in 'xyz']
        s = pos('s', 0.01, 100)
        p1 = [SR.var('p1' + a) for a in 'xyz']
        p2 = [SR.var('p2' + a) for a in 'xyz']
        c.assume(z3.Or(*[a.n != b.n for a, b in zip(p1, p2)]))
        r = pos('r', 1e-6, 1)
        an = symtopo.AbstractNorm()
        old = (npf.state.norm_mode, getattr(npf.state, 'abstract_norm', None))
        npf.state.norm_mode, npf.state.abstract_norm = 'abstract', an
        try:
            with symx.object_arrays():
                rm = M.Rotation_Matrix(np.array(ang, dtype=object))
                w = M.Wire(3, *p1, *p2, r)
                w.rotate(rm)
                rot = (np.array(w.p1), np.array(w.p2))
                w.translate(np.array(tr, dtype=object))
                trn = (np.array(w.p1), np.array(w.p2))
                w.scale(s)
                scl = (np.array(w.p1), np.array(w.p2), w.r)
        finally:
            npf.state.norm_mode, npf.state.abstract_norm = old
        return dict(inputs=dict(ang=[a for a in ang if symx.is_sym(a)], tr=tr, s=s, p1=p1, p2=p2, r=r),
                    m=rm.m, rot=rot, trn=trn, scl=scl, p1=p1, p2=p2, tr=tr, s=s, r=r)

    def goals(o):
        m = o['m']
        g = []
        ortho = []
        for i in range(3):
            for j in range(3):
                dot = sum((m[k][i] * m[k][j] for k in range(3)), 0.0)
                ortho.append(eq_term(dot, 1.0 if i == j else 0.0))
        g.append(('rotation matrix is orthogonal (preserves every length and angle)', z3.And(*ortho)))
        det = (m[0][0] * (m[1][1] * m[2][2] - m[1][2] * m[2][1]) - m[0][1] * (m[1][0] * m[2][2] - m[1][2] * m[2][0])
               + m[0][2] * (m[1][0] * m[2][1] - m[1][1] * m[2][0]))
        g.append(('rotation matrix has determinant +1 (no reflection)', eq_term(det, 1.0)))
        p1, p2 = o['p1'], o['p2']
        r1 = [sum((m[i][k] * p1[k] for k in range(3)), 0.0) for i in range(3)]
        r2 = [sum((m[i][k] * p2[k] for k in range(3)), 0.0) for i in range(3)]
        g.append(('rotate applies the matrix to both end points', z3.And(
            *[eq_term(a, b) for a, b in zip(list(o['rot'][0]) + list(o['rot'][1]), r1 + r2)])))
        g.append(('translate adds the vector to both end points', z3.And(
            *[eq_term(a, b + t) for a, b, t in zip(list(o['trn'][0]) + list(o['trn'][1]), r1 + r2, o['tr'] * 2)])))
        g.append(('scale multiplies all coordinates and the radius', z3.And(
            eq_term(o['scl'][2], o['r'] * o['s']),
            *[eq_term(a, (b + t) * o['s']) for a, b, t in zip(list(o['scl'][0]) + list(o['scl'][1]), r1 + r2, o['tr'] * 2)])))
        return g

    def replay(c, gn, out):
        ang = [0.0, 0.0, 0.0]
        it = iter(c['ang'])
        for i, a in enumerate('xyz'):
            if a in axes:
                ang[i] = float(next(it))
        rm = mm.Rotation_Matrix(np.array(ang))
        if not np.allclose(rm.m.T @ rm.m, np.eye(3), atol=1e-12) or not close(np.linalg.det(rm.m), 1.0, 1e-12):
            return ('C13:rotation', 'Rotation_Matrix(%s) is not a rotation' % ang, dict(kind='rotation'))
        w = mm.Wire(3, *c['p1'], *c['p2'], c['r'])
        w.rotate(rm)
        w.translate(np.array(c['tr']))
        w.scale(c['s'])
        want1 = (rm.m @ np.array(c['p1']) + np.array(c['tr'])) * c['s']
        want2 = (rm.m @ np.array(c['p2']) + np.array(c['tr'])) * c['s']
        sc = 1 + max(np.abs(want1).max(), np.abs(want2).max())
        if not (np.allclose(w.p1, want1, atol=1e-9 * sc) and np.allclose(w.p2, want2, atol=1e-9 * sc) and close(w.r, c['r'] * c['s'], 1e-12)):
            return ('C13:transform', 'rotate/translate/scale of a wire gives %s-%s r=%r, expected %s-%s' % (w.p1, w.p2, w.r, want1, want2),
                    dict(kind='transform'))
        return None
    prove_paths(ck, 'transforms-%s' % axes, fn, goals, replay, max_paths=64, expect_exc=(ValueError,),
                timeout_ms=20000 if ck.tier == 'quick' else 120000)
    ck.bounds.setdefault('transforms', []).append(axes)


def curve_transform(ck, sh, mm, kind, n, axis):
    """Arc / Helix with n segments: rotate, translate and scale act on EVERY segment end as on a point
    (rotation matrix of the code, symbolic angle about one axis; symbolic translation and scale factor)."""
    M = sh.mininec

    def build(Mx):
        if kind == 'arc':
            return Mx.Arc(n, 1.0, 10.0, 130.0, 0.002)
        return Mx.Helix(n, 0.1, 0.5, 0.001, 0.2, 0.25)

    def fn():
        c = symx.ctx()
        ang = [0.0, 0.0, 0.0]
        a = SR.var('rot')
        c.assume(z3.And(a.n >= -360, a.n <= 360, a.n != 0))
        ang['xyz'.index(axis)] = a
        tr = [SR.var('t' + x) for x in 'xyz']
        s = pos('s', 0.01, 100)
        with symx.object_arrays():
            w = build(M)
            before = np.array(w.segends, dtype=float)
            r0 = w.r
            rm = M.Rotation_Matrix(np.array(ang, dtype=object))
            w.rotate(rm)
            rot = np.array(w.segends)
            w.translate(np.array(tr, dtype=object))
            trn = np.array(w.segends)
            w.scale(s)
            scl = np.array(w.segends)
        return dict(inputs=dict(rot=a, tr=tr, s=s), m=rm.m, before=before, rot=rot, trn=trn, scl=scl, tr=tr, s=s, r=w.r, r0=r0)

    def goals(o):
        m, B = o['m'], o['before']
        want = [[sum((m[i][k] * float(B[p][k]) for k in range(3)), 0.0) for i in range(3)] for p in range(len(B))]
        g = [('exactly n+1 segment ends stay', z3.BoolVal(o['rot'].shape == B.shape and o['scl'].shape == B.shape))]
        if o['rot'].shape != B.shape:
            return g
        g.append(('rotate applies the matrix to every segment end', z3.And(
            *[eq_term(o['rot'][p][i], want[p][i]) for p in range(len(B)) for i in range(3)])))
        g.append(('translate adds the vector to every segment end', z3.And(
            *[eq_term(o['trn'][p][i], want[p][i] + o['tr'][i]) for p in range(len(B)) for i in range(3)])))
        g.append(('scale multiplies every segment end and the radius', z3.And(
            eq_term(o['r'], SR.lift(o['r0']) * o['s']),
            *[eq_term(o['scl'][p][i], (want[p][i] + o['tr'][i]) * o['s']) for p in range(len(B)) for i in range(3)])))
        return g

    def replay(c, gn, out):
        ang = [0.0, 0.0, 0.0]
        ang['xyz'.index(axis)] = float(c['rot'])
        w = build(mm)
        before = np.array(w.segends, dtype=float)
        rm = mm.Rotation_Matrix(np.array(ang))
        w.rotate(rm)
        after = np.array(w.segends, dtype=float)
        l0 = np.linalg.norm(np.diff(before, axis=0), axis=1)
        l1 = np.linalg.norm(np.diff(after, axis=0), axis=1) if after.shape == before.shape else None
        if l1 is None or not np.allclose(l0, l1, rtol=1e-9) or not np.allclose(after, (rm.m @ before.T).T, atol=1e-9):
            return ('C13:curve-rotate:%s' % kind, '%s with %d segments rotated by %r about %s: segment lengths %s -> %s'
                    % (kind, n, float(c['rot']), axis, l0, l1), dict(kind='curve-rotate', n=n))
        w.translate(np.array([float(v) for v in c['tr']]))
        w.scale(float(c['s']))
        want = ((rm.m @ before.T).T + np.array([float(v) for v in c['tr']])) * float(c['s'])
        if not np.allclose(np.array(w.segends, dtype=float), want, atol=1e-9 * (1 + np.abs(want).max())):
            return ('C13:curve-transform:%s' % kind, '%s with %d segments: translate/scale do not act on every segment end' % (kind, n), dict(kind='curve-transform', n=n))
        return None
    prove_paths(ck, 'curve-%s-n%d-%s' % (kind, n, axis), fn, goals, replay, max_paths=16, expect_exc=(ValueError,), timeout_ms=20000)


# ---------------------------------------------------------------------------------------------
# (f) order and scope of the transformation options of the program: sort keys, tags, scale last
# ---------------------------------------------------------------------------------------------
TW = [('3', (0.0, 0.0, 0.0), (1.5, 0.3, 0.2), 0.002), ('2', (1.5, 0.3, 0.2), (1.7, 1.2, 0.9), 0.004)]
ROT_A, ROT_B = (0.0, 90.0, 0.0), (30.0, 0.0, 0.0)

# case -> list of (kind, payload, tag or None); keys k1, k2, (k3) and the translation vectors / scale factor are symbolic
ORDER_CASES = {
    'rotate+translate': [('rot', ROT_A, None), ('tr', 't', None)],
    'translate+rotate-tagged': [('tr', 't', 2), ('rot', ROT_A, 2)],
    'two-translations': [('tr', 't', None), ('tr', 'u', 1)],
    'two-rotations': [('rot', ROT_A, None), ('rot', ROT_B, None)],
    'rotate+translate+scale': [('rot', ROT_B, None), ('tr', 't', None), ('scale', 's', None)],
    'three': [('tr', 't', None), ('rot', ROT_A, 1), ('tr', 'u', None)],
}


def _order_argv(case, keys, vecs, sc):
    argv = []
    for n, p1, p2, r in TW:
        argv += ['-w', ','.join([n] + [repr(v) for v in p1 + p2] + [repr(r)])]
    argv += ['--excitation-pulse=1']
    ki = 0
    for kind, pay, tag in ORDER_CASES[case]:
        tg = [] if tag is None else [str(tag)]
        if kind == 'rot':
            argv.append('--geo-rotate=' + ','.join([keys[ki]] + [repr(a) for a in pay] + tg))
            ki += 1
        elif kind == 'tr':
            argv.append('--geo-translate=' + ','.join([keys[ki]] + list(vecs[pay]) + tg))
            ki += 1
        else:
            argv.append('--geo-scale=' + ','.join([sc] + tg))
    return argv


def _order_reference(case, rotm, keyvals, vec, scv, lt, eq, mul_add):
    """All admissible results: the transformations sorted by key; equal keys leave the order open (every order of a tie is admissible).
    Returns [(condition on the keys as a list of (i, rel, j)), [(p1, p2, r) per wire])]."""
    import itertools as it
    ops = [(kind, pay, tag) for kind, pay, tag in ORDER_CASES[case] if kind != 'scale']
    scale = [(kind, pay, tag) for kind, pay, tag in ORDER_CASES[case] if kind == 'scale']
    out = []
    for perm in it.permutations(range(len(ops))):
        pts = [[np.array(p1, dtype=object), np.array(p2, dtype=object), r] for n, p1, p2, r in TW]
        for oi in perm:
            kind, pay, tag = ops[oi]
            for wi, w in enumerate(pts):
                if tag is not None and tag != wi + 1:
                    continue
                for e in (0, 1):
                    if kind == 'rot':
                        w[e] = np.array([sum((rotm[pay][i][k] * w[e][k] for k in range(3)), 0.0) for i in range(3)], dtype=object)
                    else:
                        w[e] = np.array([w[e][i] + vec[pay][i] for i in range(3)], dtype=object)
        for kind, pay, tag in scale:
            for wi, w in enumerate(pts):
                if tag is not None and tag != wi + 1:
                    continue
                w[0], w[1], w[2] = w[0] * scv, w[1] * scv, w[2] * scv
        cond = [(perm[a], perm[a + 1]) for a in range(len(perm) - 1)]          # key[perm[a]] <= key[perm[a+1]]
        out.append((cond, pts))
    return out


def transform_order(ck, sh, mm, case):
    """The real main() on an argument list whose sort keys, translation vectors and scale factor are arbitrary: every wire ends where
    the transformations, taken in sort-key order (equal keys: any order, but every one of them applied) on the object of their tag
    or on everything, and the scale factor applied after all of them (radius included), put it."""
    M = sh.mininec
    nk = sum(1 for k, p, t in ORDER_CASES[case] if k != 'scale')
    rots = sorted({p for k, p, t in ORDER_CASES[case] if k == 'rot'})

    def fn():
        c = symx.ctx()
        keys = [SR.var('k%d' % (i + 1)) for i in range(nk)]
        for k in keys:
            c.assume(z3.And(k.n >= -3, k.n <= 3))
        vec = {nm: [SR.var(nm + a) for a in 'xyz'] for nm in ('t', 'u')}
        for v in vec.values():
            for x in v:
                c.assume(z3.And(x.n >= -100, x.n <= 100))
        s = pos('s', 0.01, 100)
        argv = _order_argv(case, [tokens.exact(k) for k in keys], {nm: [tokens.exact(x) for x in v] for nm, v in vec.items()}, tokens.exact(s))
        import io, contextlib
        out, err = io.StringIO(), io.StringIO()
        class Captured(Exception):
            pass

        class Holder:
            pass

        def mininec_stub(f, geo, **kw):
            # main() has applied every geometry option when it constructs the model: the objects are captured here and the run ends
            # (segmentation and connection matching on symbolic coordinates are the subject of the other clauses and of C12)
            h = Holder()
            h.geo = [g for g in geo]
            raise Captured(h)
        real_cls = M.Mininec
        M.Mininec = mininec_stub
        try:
            with symx.object_arrays(), contextlib.redirect_stdout(out), contextlib.redirect_stderr(err):
                rotm = {p: real_cls.__module__ and M.Rotation_Matrix(np.array(p)).m for p in rots}
                m = M.main(list(argv), f_err=err, return_mininec=True)
        except Captured as e:
            m = e.args[0]
        finally:
            M.Mininec = real_cls
        if not hasattr(m, 'geo'):
            return dict(inputs=dict(keys=keys, t=vec['t'], u=vec['u'], s=s), refused=(m, out.getvalue() + err.getvalue()))
        got = [(np.array(w.p1), np.array(w.p2), w.r) for w in m.geo]
        ref = _order_reference(case, rotm, keys, vec, s, None, None, None)
        return dict(inputs=dict(keys=keys, t=vec['t'], u=vec['u'], s=s), got=got, ref=ref, keys=keys, has_scale=any(k == 'scale' for k, p, t in ORDER_CASES[case]))

    def near(a, b):
        # the reference and the code may associate the float products of a rotation differently: 1e-9 m absolute on coordinates
        # that stay below 1e4 m by the bounds on the inputs
        d = SR.lift(a) - SR.lift(b)
        return z3.And((d <= 1e-9).t, (d >= -1e-9).t)

    def goals(o):
        if 'refused' in o:
            return [('the argument list is accepted', z3.BoolVal(False))]
        alts = []
        for cond, pts in o['ref']:
            cs = [o['keys'][a].n <= o['keys'][b].n for a, b in cond]
            for (g1, g2, gr), (r1, r2, rr) in zip(o['got'], pts):
                cs += [near(a, b) for a, b in zip(list(g1)[:2] + list(g2)[:2], list(r1)[:2] + list(r2)[:2])]
                # an end closer to height 0 than 1/1000 of the shortest segment is put ON height 0 after segmentation (the tolerance of
                # C12; also in free space): admitted for the z component, with 0.6 s as upper bound of the segment lengths of the template
                for a, b in ((g1[2], r1[2]), (g2[2], r2[2])):
                    a, b = SR.lift(a), SR.lift(b)
                    lim = o['inputs']['s'] * 0.0006 if o['has_scale'] else SR.lift(0.0006)
                    cs.append(z3.Or(near(a, b), z3.And(eq_term(a, 0.0), (b < lim).t, (b > -lim).t)))
                cs.append(eq_term(gr, rr))
            alts.append(z3.And(*cs))
        return [('every wire ends where the transformations in sort-key order (scale last) put it', z3.Or(*alts))]

    def replay(c, gn, out):
        keys = [float(k) for k in c['keys']]
        vec = dict(t=[float(x) for x in c['t']], u=[float(x) for x in c['u']])
        s = float(c['s'])
        argv = _order_argv(case, [repr(k) for k in keys], {nm: [repr(x) for x in v] for nm, v in vec.items()}, repr(s))
        import io, contextlib
        o_, e_ = io.StringIO(), io.StringIO()
        with contextlib.redirect_stdout(o_), contextlib.redirect_stderr(e_):
            m = mm.main(list(argv), f_err=e_, return_mininec=True)
        if not hasattr(m, 'geo'):
            return ('C13:transform-order:%s:refused' % case, 'main(%s) refuses the model: %s' % (' '.join(argv), (o_.getvalue() + e_.getvalue())[:200]),
                    dict(kind='transform-order', argv=argv))
        rotm = {p: mm.Rotation_Matrix(np.array(p)).m for p in rots}
        got = [(np.array(w.p1, dtype=float), np.array(w.p2, dtype=float), float(w.r)) for w in m.geo]
        for cond, pts in _order_reference(case, rotm, keys, vec, s, None, None, None):
            if not all(keys[a] <= keys[b] for a, b in cond):
                continue
            sc = 1 + max(float(np.abs(np.asarray(p[e], dtype=float)).max()) for p in pts for e in (0, 1))
            def same(g, p):
                p = np.asarray(p, dtype=float)
                if not np.allclose(g[:2], p[:2], atol=1e-9 * sc):
                    return False
                return abs(g[2] - p[2]) <= 1e-9 * sc or (g[2] == 0 and abs(p[2]) < 1e-3 * m.min_seglen)
            if all(same(g[e], p[e]) for g, p in zip(got, pts) for e in (0, 1)) and all(close(g[2], float(p[2]), 1e-12) for g, p in zip(got, pts)):
                return None
        return ('C13:transform-order:%s' % case, 'main(%s): wires end at %s, which no sort-key order of the requested transformations (scale last) produces'
                % (' '.join(argv[5:]), [(list(np.round(g[0], 6)), list(np.round(g[1], 6)), g[2]) for g in got]), dict(kind='transform-order', argv=argv))
    prove_paths(ck, 'transform-order-%s' % case, fn, goals, replay, max_paths=64, timeout_ms=20000 if ck.tier == 'quick' else 120000)
    ck.bounds.setdefault('transform_order', []).append(case)


def main(args):
    ck = Check('C13', args)
    ck.shadow_stats = symx.load().stats
    parts = []
    if ck.tier == 'quick':
        for n in (2, 3, 4):
            parts.append(('taper', ('taper1', n, False, False)))
            parts.append(('taper', ('taper1', n, True, True)))
        parts.append(('taper', ('taper1', 3, False, False, 1)))
        for n in (2, 3, 4):
            parts.append(('taper', ('taper2', n, False, False)))
        parts.append(('taper', ('taper2', 4, True, True)))
        parts += [('taper_wire', (t, False)) for t in (1, 2, 3)] + [('taper_wire', (1, True))]
        parts += [('curve_transform', ('helix', n, 'x')) for n in (1, 2, 3)] + [('curve_transform', ('arc', 3, 'z')), ('curve_transform', ('helix', 2, 'y'))]
        parts += [('taper_mirror', (3,)), ('equal_segments', (1,)), ('equal_segments', (7,)), ('arc', (3,)), ('arc', (5,)),
                  ('helix', (3, 1, 1)), ('helix', (4, -1, 1)), ('helix', (3, 1, -1)), ('transforms', ('x',)), ('transforms', ('z',)),
                  ('transforms', ('xy',))]
        parts += [('transform_order', (cs,)) for cs in ORDER_CASES]
    else:
        for n in (2, 3, 4, 5):
            for mn, mx in ((False, False), (True, False), (False, True), (True, True)):
                parts.append(('taper', ('taper1', n, mn, mx)))
                parts.append(('taper', ('taper2', n, mn, mx)))
            parts.append(('taper', ('taper1', n, True, True, 1)))
        for n in (6, 7, 8, 10):
            parts.append(('taper', ('taper1', n, False, False)))
            parts.append(('taper', ('taper2', n, False, False)))
        parts += [('taper_mirror', (n,)) for n in (2, 3, 4, 5)]
        parts += [('taper_wire', (t, c)) for t in (1, 2, 3) for c in (False, True)]
        parts += [('curve_transform', ('helix', n, ax)) for n in (1, 2, 3, 4, 6) for ax in 'xyz'] + [('curve_transform', ('arc', n, ax)) for n in (3, 4, 8) for ax in 'xyz']
        parts += [('equal_segments', (n,)) for n in (1, 2, 3, 7, 20, 40)]
        parts += [('arc', (n,)) for n in (3, 4, 8, 16)]
        parts += [('helix', (n, a, b)) for n in (3, 5, 8) for a in (1, -1) for b in (1, -1)]
        parts += [('transforms', (a,)) for a in ('x', 'y', 'z', 'xy', 'yz', 'xz', 'xyz')]
        parts += [('transform_order', (cs,)) for cs in ORDER_CASES]
    run_parallel(ck, 'checks.c13', parts)
    ck.assumptions += ['taper generators are called with their documented preconditions assumed (n > 1, l/n >= max(2.5 r, min), '
                       'min <= max, l/n <= max); paths that end in AssertionError/Taper_Error are not a C13 matter (C20)',
                       'the bounds hold within the code\'s own slack eps = (shortest piece)/10',
                       'abstract Euclidean length for 3-D wires (free positive number, 0 iff the vector is 0)',
                       'cos/sin of a symbolic angle: two reals with c^2+s^2=1; np.pi is the double the code uses']
    ck.stubs += ['np.linalg.norm -> abstract norm (3-D jobs)', 'np.cos/np.sin -> circle pair']
    ck.outside += ['tapers with more segments than listed (path count roughly triples per segment)',
                   'transformation sequences other than the listed option combinations (two or three rotate/translate options, one scale)']
    return ck.finish('Real taper generators, segmentation and curve constructors and transformation methods executed on symbolic '
                     'lengths/radii/limits/angles; every path gets tiling, bounds, growth, mirror, on-curve and orthogonality '
                     'assertions decided by z3 (nonlinear real / mixed integer arithmetic).')


if __name__ == '__main__':
    run_check('C13', main)
