"""C19 -- report text faithfully carries the computed values.

(a) the formatter: util.format_float runs UNSTUBBED on a symbolic real; the printed text is a
    symbolic decimal (sign, integer of all digits, decimals), the string operations of the function
    are integer operations on it, and the value read back is compared with the input for all reals
    of the decade the path is in.
(b) the report: every *_as_mininec writer runs on symbolic currents/voltages/fields with the token
    formatter; each printed number is the value its row is about and the report is structurally
    complete.
"""
import math
import re
from fractions import Fraction
import z3
import numpy as np

from .common import Check, run_check, prove_paths, close, run_parallel
import symx
from symx import SR, SC, SI, core, npf, tokens, decimal
from symx.core import eq_term
from refmodels import catalogue
from .c08 import pos


# ---------------------------------------------------------------------------------------------
# (a) format_float
# ---------------------------------------------------------------------------------------------

def formatter(ck, sh, mm, lo_dec, hi_dec, use_e, sign):
    U = sh.util

    def fn():
        c = symx.ctx()
        f = SR.var('f')
        lo, hi = Fraction(10) ** lo_dec, Fraction(10) ** hi_dec
        if sign > 0:
            c.assume(z3.And(f.n >= core.RV(lo), f.n <= core.RV(hi)))
        else:
            c.assume(z3.And(f.n <= core.RV(-lo), f.n >= core.RV(-hi)))
        npf.state.decade_log = True
        tokens.FMT_HOOK[0] = decimal.fmt_hook
        try:
            out, = U.format_float((f,), use_e=use_e)
        finally:
            npf.state.decade_log = False
            tokens.FMT_HOOK[0] = None
        return dict(inputs=dict(f=f), out=out, f=f)

    def goals(o):
        out, f = o['out'], o['f']
        if isinstance(out, str):
            return [('symbolic value reached the text', z3.BoolVal(False))]
        v = out.value()
        a = abs(f)
        err = abs(v - f)
        rel_ok = (err <= a * Fraction(5, 10 ** 6)).t
        abs_ok = (err <= Fraction(1, 10 ** 6)).t
        g = []
        if isinstance(out, decimal.SymExp):
            g.append(('E-format: value read back within 5e-6 relative', rel_ok))
        else:
            g.append(('value read back within 5e-6 relative, or 1e-6 absolute (fixed-point field)', z3.Or(rel_ok, abs_ok)))
            g.append(('magnitudes >= 0.1 keep 5e-6 relative', z3.Or((a < Fraction(1, 10)).t, rel_ok)))
            if out.has_dot:
                g.append(('at most 9 characters when there is a fraction', z3.BoolVal(out.length_ub() <= 9)))
            g.append(('never prints -0', z3.Not(z3.And(z3.BoolVal(out.sign == '-'), (out.N == 0).t))))
        return g

    def replay(c, gn, out):
        return replay_formatter(mm, float(c['f']), use_e)
    prove_paths(ck, 'format-1e%d..1e%d-%s-e%d' % (lo_dec, hi_dec, '+' if sign > 0 else '-', use_e), fn, goals, replay,
                max_paths=400, timeout_ms=10000 if ck.tier == 'quick' else 60000)
    ck.bounds.setdefault('formatter', []).append('|f| in [1e%d, 1e%d], sign %+d, use_e=%d' % (lo_dec, hi_dec, sign, use_e))


def replay_formatter(mm, f, use_e):
    import mininec.util as U
    s, = U.format_float((f,), use_e=use_e)
    try:
        v = float(s)
    except ValueError:
        return ('C19:format_float:unreadable', 'format_float(%r, use_e=%d) = %r cannot be read back' % (f, use_e, s), dict(kind='format', f=f))
    err = abs(v - f)
    txt = s.strip()
    if txt.startswith('-') and v == 0:
        return ('C19:format_float:minus-zero', 'format_float(%r, use_e=%d) = %r' % (f, use_e, s), dict(kind='format', f=f))
    if '.' in txt and 'E' not in txt and len(s.rstrip()) > 9:
        return ('C19:format_float:length', 'format_float(%r, use_e=%d) = %r is longer than 9 characters' % (f, use_e, s), dict(kind='format', f=f))
    ok = err <= 5e-6 * abs(f) * (1 + 1e-9) or ('E' not in txt and abs(f) < 0.1 and err <= 1e-6 * (1 + 1e-9))
    if ok:
        return None
    return ('C19:format_float:value', 'format_float(%r, use_e=%d) = %r reads back as %r (relative error %.3g)'
            % (f, use_e, s, v, err / abs(f)), dict(kind='format', f=f, use_e=use_e))


def formatter_zero(ck, sh, mm):
    U = sh.util

    def fn():
        f = SR.var('f')
        symx.ctx().assume(f.n == 0)
        res = []
        npf.state.decade_log = True
        tokens.FMT_HOOK[0] = decimal.fmt_hook
        try:
            for ue in (0, 1):
                res.append(U.format_float((f,), use_e=ue)[0])
        finally:
            npf.state.decade_log = False
            tokens.FMT_HOOK[0] = None
        return dict(inputs=dict(f=f), res=res)

    def goals(o):
        g = []
        for ue, out in enumerate(o['res']):
            g.append(('zero prints as 0 (use_e=%d)' % ue, z3.And(eq_term(out.value(), 0.0), z3.BoolVal(out.sign == ' '))))
        return g
    prove_paths(ck, 'format-zero', fn, goals, lambda c, g, o: replay_formatter(mm, 0.0, 0))


def load_lines(ck, sh, mm, gname, kind):
    """Load listing of distributed loads: every line carries the pulse number and the impedance of THAT pulse
    (unequal segments: tapered wire G11; junction of different wires: G2), one line per loaded pulse."""
    M = sh.mininec

    def build(Mx, f, sigma):
        m = catalogue.build(Mx, gname, f=f)
        loads = []
        for w in m.geo:
            if kind == 'skin':
                ld = Mx.Skin_Effect_Load(w, conductivity=sigma, all_wires=True)
            else:
                ld = Mx.Insulation_Load(w, 0.006, 3.0, all_wires=True)
            m.register_load(ld, None, w.tag)
            loads.append(ld)
        m.fix_distributed_loads()
        return m, loads

    def fn():
        old = (M.format_float, sh.pulse.format_float)
        M.format_float = sh.pulse.format_float = tokens.format_float_stub
        tokens.SIGN_FORK[0] = False
        try:
            f = pos('f', 0.1, 1000)
            sigma = pos('sigma', 1e3, 1e9)
            with symx.object_arrays():
                m, loads = build(M, f, sigma)
                text = m.loads_as_mininec()
                want = [(p.idx + 1, ld.impedance(f, p)) for ld in loads for p in ld.pulses]
        finally:
            M.format_float, sh.pulse.format_float = old
            tokens.SIGN_FORK[0] = True
        return dict(inputs=dict(f=f, sigma=sigma), text=text, want=want)

    def goals(o):
        rf = tokens.read_field
        lines = [ln for ln in o['text'].split('\n') if ln.startswith('PULSE NO.')]
        g = [('one load line per loaded pulse', z3.BoolVal(len(lines) == len(o['want'])))]
        if len(lines) != len(o['want']):
            return g
        for ln, (pn, z) in zip(lines, o['want']):
            f_ = ln.split(':')[1].split(',')
            z = SC.lift(z)
            g.append(('load line of pulse %d: number, resistance and reactance of that pulse' % pn,
                      z3.And(z3.BoolVal(int(f_[0]) == pn), _within(rf(f_[1]), z.re), _within(rf(f_[2]), z.im))))
        return g

    def replay(c, gn, out):
        m, loads = build(mm, float(c['f']), float(c['sigma']))
        lines = [ln for ln in m.loads_as_mininec().split('\n') if ln.startswith('PULSE NO.')]
        want = [(p.idx + 1, ld.impedance(m.f, p)) for ld in loads for p in ld.pulses]
        if len(lines) != len(want):
            return ('C19:load-listing:count', '%s: %d load lines for %d loaded pulses' % (gname, len(lines), len(want)), dict(kind='load-lines'))
        for ln, (pn, z) in zip(lines, want):
            f_ = ln.split(':')[1].split(',')
            R, X = float(f_[1]), float(f_[2])
            if int(f_[0]) != pn or abs(R - z.real) > 5e-6 * abs(z.real) + 1e-6 or abs(X - z.imag) > 5e-6 * abs(z.imag) + 1e-6:
                return ('C19:load-listing:value', '%s (%s load, %r MHz): load line "%s" but pulse %d is loaded with %r' % (gname, kind, m.f, ln.strip(), pn, z),
                        dict(kind='load-lines', geometry=gname))
        return None
    prove_paths(ck, 'load-lines-%s-%s' % (gname, kind), fn, goals, replay, max_paths=64, sqrt_mode='uf-free', timeout_ms=10000)


def main(args):
    ck = Check('C19', args)
    ck.shadow_stats = symx.load().stats
    parts = [('formatter_zero', ())]
    if ck.tier == 'quick':
        ranges = [(-30, -20), (-8, -3), (-3, 0), (0, 3), (3, 8), (8, 12)]
    else:
        ranges = [(d, d + 1) for d in range(-30, 12)]
    for lo, hi in ranges:
        for ue in (0, 1):
            for sg in (1, -1):
                parts.append(('formatter', (lo, hi, ue, sg)))
    parts += [('report', (g,)) for g in (('G2', 'G9', 'G29') if ck.tier == 'quick' else ('G2', 'G5', 'G9', 'G10', 'G12', 'G29', 'G16'))]
    parts += [('load_lines', (g, k)) for g in ('G11', 'G2') for k in ('skin', 'coat')]
    run_parallel(ck, 'checks.c19', parts)
    ck.assumptions += ['f is a real number (IEEE rounding of f itself is not modelled); round-half-even of the C formatter is '
                       'over-approximated by |N - f*10^prec| <= 1/2',
                       'int(log(|f|)/log(10)): exact decade, both neighbouring results admitted within 1e-12 relative of a power of ten',
                       '1e-30 <= |f| <= 1e12 or f = 0']
    ck.stubs += ['np.log -> decade oracle', "'% .Nf' % f, '% e' % f -> symbolic decimal (symx.decimal)"]
    ck.outside += ['|f| outside [1e-30, 1e12]', 'non-finite values (C20)']
    return ck.finish('util.format_float executed unstubbed on a symbolic real; each path fixes sign, decade, format and digit '
                     'count, and z3 decides in mixed integer/real arithmetic that the value read back from the text is within the '
                     'stated tolerance for every real of that class.')


if __name__ == '__main__':
    run_check('C19', main)


# ---------------------------------------------------------------------------------------------
# (b) the report writers
# ---------------------------------------------------------------------------------------------

def _within(read, val):
    """z3 Bool: |read - val| <= 5e-6 |val|  or  <= 1e-6."""
    read, val = SR.lift(read), SR.lift(val)
    err = abs(read - val)
    return z3.Or((err <= abs(val) * Fraction(5, 10 ** 6)).t, (err <= Fraction(1, 10 ** 6)).t)


def report(ck, sh, mm, gname):
    M = sh.mininec

    def fn():
        c = symx.ctx()
        old = (M.format_float, sh.pulse.format_float)
        M.format_float = sh.pulse.format_float = tokens.format_float_stub
        tokens.SIGN_FORK[0] = False
        try:
            with symx.object_arrays():
                m = catalogue.build(M, gname)
                n = len(m.pulses)
                I = [SC.var('I%d' % k) for k in range(n)]
                cur = np.empty(n, dtype=object)
                cur[:] = I
                m.current = cur
                V = [SC.var('V0'), SC.var('V1')]
                for v in V:
                    c.assume(z3.And(v.nr >= -1000, v.nr <= 1000, v.ni >= -1000, v.ni <= 1000))
                sp = [1, n - 1]
                for k in sp:
                    c.assume(z3.Or(I[k].nr != 0, I[k].ni != 0))
                srcs = [M.Excitation(V[0]), M.Excitation(V[1])]
                for s_, k in zip(srcs, sp):
                    m.register_source(s_, k)
                ZL = SC.var('ZL')
                ld = M.Impedance_Load(ZL)
                m.register_load(ld, 0)
                m.register_load(ld, n - 1)
                m.power = pos('P', 1e-9, 1e6)
                # fields: arbitrary symbolic tables of the right shape
                nt, na = 2, 2
                gain = np.empty((nt, na, 3), dtype=object)
                et = np.empty((na, nt), dtype=object)
                ep = np.empty((na, nt), dtype=object)
                for a in range(na):
                    for t in range(nt):
                        et[a][t] = SC.var('Et%d%d' % (a, t))
                        ep[a][t] = SC.var('Ep%d%d' % (a, t))
                        for k in range(3):
                            gain[t][a][k] = SR.var('G%d%d%d' % (t, a, k))
                zen_d, azi_d = np.meshgrid(np.array([10.0, 50.0]), np.array([0.0, 90.0]))
                m.far_field = M.Far_Field_Pattern(azi_d, zen_d, gain, et, ep, 1.0)
                m.far_field_angles = (M.Angle(10.0, 40.0, 2), M.Angle(0.0, 90.0, 2))
                m.ff_dist, m.ff_power = 1000.0, m.power
                Ef = [np.array([SC.var('E%d%s' % (k, ax)) for ax in 'xyz'], dtype=object) for k in range(2)]
                m.e_field = Ef
                m.h_field = [np.array([SC.var('H%d%s' % (k, ax)) for ax in 'xyz'], dtype=object) for k in range(2)]
                m.near_field_coord = np.array([[1.0, 1.0], [1.0, 1.0], [1.0, 2.0]])
                m.nf_param = np.array([[1.0, 1.0, 1.0], [1.0, 1.0, 1.0], [1.0, 1.0, 2.0]])
                m.nf_power = m.power
                # every writer has been used once before on the same object, for another solution (other currents, other power): what
                # is read below is the SECOND report of the object
                cur1 = np.empty(n, dtype=object)
                cur1[:] = [SC.var('J%d' % k) for k in range(n)]
                m.current, keep_p = cur1, m.power
                m.power = pos('P1', 1e-9, 1e6)
                for wr in (m.wires_as_mininec, m.sources_as_mininec, m.loads_as_mininec, m.source_data_as_mininec, m.currents_as_mininec,
                           m.far_field_as_mininec, m.far_field_absolute_as_mininec, m.near_field_e_as_mininec):
                    try:
                        wr()
                    except ZeroDivisionError:
                        pass
                m.current, m.power = cur, keep_p
                m.nf_power = m.ff_power = m.power
                text = dict(geo=m.wires_as_mininec(), src=m.sources_as_mininec(), lds=m.loads_as_mininec(),
                            sdata=m.source_data_as_mininec(), cur=m.currents_as_mininec(), ffdb=m.far_field_as_mininec(),
                            ffabs=m.far_field_absolute_as_mininec(), nfe=m.near_field_e_as_mininec())
        finally:
            M.format_float, sh.pulse.format_float = old
            tokens.SIGN_FORK[0] = True
        return dict(inputs=dict(I=I, V=V, ZL=ZL, P=m.power, Et=list(et.reshape(-1)), Ep=list(ep.reshape(-1)),
                                G=list(gain.reshape(-1)), E=[x for e in Ef for x in e]),
                    m=m, text=text, I=I, V=V, ZL=ZL, srcs=srcs, sp=sp, gain=gain, et=et, ep=ep, Ef=Ef)

    def goals(o):
        m, text, I = o['m'], o['text'], o['I']
        g = []
        rf = tokens.read_field
        # ---- geometry: one row per pulse in its object's block, coordinates of the pulse point
        rows = []
        on = False
        for ln in text['geo'].split('\n'):
            if 'ANTENNA GEOMETRY' in ln:
                on = True
                continue
            if not on or not ln.strip() or ln.startswith('X ') or ' NO. ' in ln:
                continue
            f_ = ln.split()
            if f_[0] != '-':
                rows.append(f_)
        ok = [z3.BoolVal(len(rows) == len(m.pulses))]
        for f_, p in zip(rows, m.pulses):
            ok.append(z3.BoolVal(int(f_[-1]) == p.idx + 1))
            for k in range(3):
                ok.append(_within(rf(f_[k]), p.point[k]))
            ok.append(_within(rf(f_[3]), p.geobj.r_orig))
        g.append(('geometry: one row per pulse with its number, point and radius', z3.And(*ok)))
        # ---- sources listing (pulse, magnitude, phase in degrees)
        lines = text['src'].split('\n')[1:]
        ok = [z3.BoolVal(len(lines) == len(o['srcs']))]
        for ln, s_, k in zip(lines, o['srcs'], o['sp']):
            f_ = ln.split(':')[1].split(',')
            ok.append(z3.BoolVal(int(f_[0]) == k + 1))
            ok.append(_within(rf(f_[1]), s_.magnitude))
            ok.append(_within(rf(f_[2]), s_.phase_d))
        g.append(('source listing: pulse number, voltage magnitude, phase', z3.And(*ok)))
        # ---- loads listing
        lines = [ln for ln in text['lds'].split('\n') if ln.startswith('PULSE NO.')]
        ok = [z3.BoolVal(len(lines) == 2)]
        for ln, k in zip(lines, (0, len(I) - 1)):
            f_ = ln.split(':')[1].split(',')
            ok.append(z3.BoolVal(int(f_[0]) == k + 1))
            ok.append(_within(rf(f_[1]), o['ZL'].re))
            ok.append(_within(rf(f_[2]), o['ZL'].im))
        g.append(('load listing: one line per loaded pulse with R and X', z3.And(*ok)))
        # ---- source data
        blocks = text['sdata'].split('PULSE')[1:]
        ok = [z3.BoolVal(len(blocks) == len(o['srcs']))]
        num = re.compile(r'[-+]?\x01\d+\x02|[-+]?\d+\.?\d*(?:[eE][-+]?\d+)?')
        for b, s_, k, v in zip(blocks, o['srcs'], o['sp'], o['V']):
            nums = num.findall(b)
            ok.append(z3.BoolVal(int(nums[0]) == k + 1))
            Ik = I[k]
            z = s_.impedance
            pw = (v.re * Ik.re + v.im * Ik.im) * 0.5
            for txt, val in zip(nums[1:9], (v.re, v.im, Ik.re, Ik.im, z.re, z.im, pw)):
                ok.append(_within(rf(txt), val))
        g.append(('source data: V, I of the feed pulse, V/I, Re(VI*)/2', z3.And(*ok)))
        # ---- current rows
        ok = []
        seen = []
        for ln in text['cur'].split('\n'):
            f_ = ln.split()
            if len(f_) == 5 and f_[0] not in ('J', 'E', 'NO.') and not ln.startswith('PULSE'):
                k = int(float(f_[0])) - 1
                seen.append(k)
                c_ = I[k]
                re_, im_, mag, ph = (rf(x) for x in f_[1:])
                ok.append(_within(re_, c_.re))
                ok.append(_within(im_, c_.im))
                ok.append(eq_term(SR.lift(mag) * mag, c_.abs2()))
                ok.append((SR.lift(mag) >= 0).t)
                ok.append(eq_term(ph, core.ufn('angle', c_.re, c_.im) / np.pi * 180))
        want = sorted(p.idx for p in m.pulses if p.geo[0] is p.geo[1])
        ok.append(z3.BoolVal(sorted(seen) == want))
        g.append(('current table: one row per (non-junction) pulse; magnitude/phase agree with real/imaginary', z3.And(*ok)))
        # ---- junction rows: the current of a pulse that joins exactly two wire ends is carried (up to the direction sign) by the J rows of
        # both ends; their magnitude/phase columns agree with their real/imaginary columns (sums at larger junctions: C09)
        jrows = []
        for ln in text['cur'].split('\n'):
            f_ = ln.split()
            if len(f_) == 5 and f_[0] == 'J':
                jrows.append(tuple(rf(x) for x in f_[1:]))
        ok = []
        for re_, im_, mag, ph in jrows:
            ok.append(eq_term(SR.lift(mag) * mag, SR.lift(re_) * re_ + SR.lift(im_) * im_))
            ok.append((SR.lift(mag) >= 0).t)
        ends = [np.asarray(e, dtype=float) for w in m.geo for e in w.endpoints]
        for p in m.pulses:
            if p.geo[0] is p.geo[1]:
                continue
            pt = np.asarray(p.point, dtype=float)
            if sum(1 for e in ends if np.linalg.norm(e - pt) < 1e-6) != 2:
                continue
            c_ = I[p.idx]
            hits = [z3.Or(z3.And(_within(re_, c_.re), _within(im_, c_.im)), z3.And(_within(re_, -c_.re), _within(im_, -c_.im))) for re_, im_, mag, ph in jrows]
            ok.append(z3.AtLeast(*hits, 2) if len(hits) >= 2 else z3.BoolVal(False))
        if jrows or ok:
            g.append(('current table: junction rows carry the current of their two-wire junction pulse; magnitude agrees with real/imaginary', z3.And(*ok) if ok else z3.BoolVal(True)))
        # ---- far field dB rows
        rows = [ln.split() for ln in text['ffdb'].split('\n') if ln and ln.split()[0][:1] in '\x01-0123456789' and len(ln.split()) == 5]
        ok = [z3.BoolVal(len(rows) == 4)]
        i = 0
        for a in range(2):
            for t in range(2):
                f_ = rows[i]
                i += 1
                for k in range(3):
                    ok.append(_within(rf(f_[2 + k]), o['gain'][t][a][k]))
        g.append(('far-field dBi table: N_theta*N_phi rows carrying the gains', z3.And(*ok)))
        # ---- far field V/m rows
        rows = [ln.split() for ln in text['ffabs'].split('\n') if len(ln.split()) == 6 and ln.split()[0][:1] in '\x01-0123456789']
        ok = [z3.BoolVal(len(rows) == 4)]
        i = 0
        for a in range(2):
            for t in range(2):
                f_ = rows[i]
                i += 1
                e1, e2 = o['et'][a][t], o['ep'][a][t]
                for txt, c_ in ((f_[2], e1), (f_[4], e2)):
                    mag = rf(txt)
                    d = SR.lift(mag) * mag - c_.abs2()
                    ok.append(z3.And((d <= c_.abs2() * Fraction(1, 10 ** 5)).t, (d >= c_.abs2() * Fraction(-1, 10 ** 5)).t))
        g.append(('far-field V/m table: magnitudes within 5e-6', z3.And(*ok)))
        ok = []
        i = 0
        for a in range(2):
            for t in range(2):
                f_ = rows[i]
                i += 1
                for txt, c_ in ((f_[3], o['et'][a][t]), (f_[5], o['ep'][a][t])):
                    ok.append(_within(rf(txt), core.ufn('angle', c_.re, c_.im) / np.pi * 180))
        g.append(('far-field V/m table: phases within 5e-6 / 1e-6', z3.And(*ok)))
        # the same table at the precision its format HAS (4 significant digits, 2 decimals): what is printed is the computed value
        # rounded, nothing else (the two goals above are violated by the format itself: known findings)
        okm, okp = [], []
        i = 0
        for a in range(2):
            for t in range(2):
                f_ = rows[i]
                i += 1
                for txt, c_ in ((f_[2], o['et'][a][t]), (f_[4], o['ep'][a][t])):
                    mag = SR.lift(rf(txt))
                    y = SR.lift(abs(c_))                 # the very square-root term the writer formatted (memoised per |E|^2)
                    okm.append(z3.And((mag - y <= y * Fraction(55, 10 ** 5)).t, (mag - y >= y * Fraction(-55, 10 ** 5)).t))
                for txt, c_ in ((f_[3], o['et'][a][t]), (f_[5], o['ep'][a][t])):
                    dd = SR.lift(rf(txt)) - core.ufn('angle', c_.re, c_.im) / np.pi * 180
                    okp.append(z3.And((dd <= Fraction(501, 10 ** 5)).t, (dd >= Fraction(-501, 10 ** 5)).t))
        g.append(('far-field V/m table at the precision of its format: phases are the rounded computed values', z3.And(*okp)))
        g.append(('far-field V/m table at the precision of its format: magnitudes are the rounded computed values', z3.And(*okm)))
        # ---- near field E
        ok = []
        comp = [ln.split() for ln in text['nfe'].split('\n') if len(ln.split()) == 5 and ln.split()[0] in 'XYZ']
        ok.append(z3.BoolVal(len(comp) == 6))
        for j, f_ in enumerate(comp):
            c_ = o['Ef'][j // 3][j % 3]
            ok.append(_within(rf(f_[1]), c_.re))
            ok.append(_within(rf(f_[2]), c_.im))
            mag = rf(f_[3])
            ok.append(eq_term(SR.lift(mag) * mag, c_.abs2()))
        g.append(('near-field table: components and magnitudes', z3.And(*ok)))
        return g

    def replay(c, gname_, out):
        return replay_report(mm, gname, c, gname_)
    prove_paths(ck, 'report-%s' % gname, fn, goals, replay, max_paths=256, twin_timeout_ms=1000,
                timeout_ms=10000 if ck.tier == 'quick' else 60000)
    ck.bounds.setdefault('report', []).append(gname)


def replay_report(mm, gname, c, goal):
    """Concrete replay with the REAL format_float: read the report text and compare."""
    m = catalogue.build(mm, gname)
    n = len(m.pulses)
    m.current = np.array([complex(x) for x in c['I']])
    sp = [1, n - 1]
    Vc = [complex(v) for v in c['V']]
    if goal.startswith('source listing') and all(abs(v.imag) < 1e-12 and v.real >= 0 for v in Vc):
        Vc = [(-0.5 - 0.5j) * (abs(v) or 1.0) for v in Vc]          # the model left the phases at 0: look at a generic phase as well
    srcs = [mm.Excitation(v) for v in Vc]
    for s_, k in zip(srcs, sp):
        m.register_source(s_, k)
    ld = mm.Impedance_Load(complex(c['ZL']))
    m.register_load(ld, 0)
    m.register_load(ld, n - 1)
    m.power = float(c['P'])
    # as in the symbolic run: the report writers were used once before on this object for another solution
    cur2 = m.current
    m.current = np.array([complex(0.3 - 0.1 * k, 0.2 + 0.15 * k) for k in range(n)])
    for wr in (m.wires_as_mininec, m.sources_as_mininec, m.loads_as_mininec, m.source_data_as_mininec, m.currents_as_mininec):
        try:
            wr()
        except ZeroDivisionError:
            pass
    m.current = cur2

    def ok(read, val):
        return abs(read - val) <= 5e-6 * abs(val) * (1 + 1e-9) or abs(read - val) <= 1e-6 * (1 + 1e-9)
    if goal.startswith('source listing'):
        for ln, s_ in zip(m.sources_as_mininec().split('\n')[1:], srcs):
            f_ = ln.split(':')[1].split(',')
            if not ok(float(f_[1]), s_.magnitude):
                return ('C19:source-listing:magnitude-%2d', 'source listing prints voltage magnitude %r as %r' % (s_.magnitude, f_[1].strip()),
                        dict(kind='report', goal=goal))
            if not ok(float(f_[2]), s_.phase_d):
                return ('C19:source-listing:phase-%2d', 'source listing prints phase %r degrees as %r' % (s_.phase_d, f_[2].strip()),
                        dict(kind='report', goal=goal))
        return None
    if goal.startswith('far-field V/m'):
        # the solver's model only says the conversion CAN lose the value; look for a concrete witness at the
        # model and at a generic table (the model often picks round numbers that happen to print exactly)
        zen_d, azi_d = np.meshgrid(np.array([10.0, 50.0]), np.array([0.0, 90.0]))
        tables = [(np.array([complex(x) for x in c['Et']]).reshape(2, 2), np.array([complex(x) for x in c['Ep']]).reshape(2, 2))]
        gen = np.array([(0.123456789 + 0.987654321j) * (k + 1.37) for k in range(4)]).reshape(2, 2)
        tables.append((gen, gen * (0.31 - 0.77j)))
        for et, ep in tables:
            ff = mm.Far_Field_Pattern(azi_d, zen_d, np.zeros((2, 2, 3)), et, ep, 1.0)
            rows = [ln.split() for ln in ff.abs_gain_as_mininec().split('\n')]
            i = 0
            for a in range(2):
                for t in range(2):
                    if 'precision of its format' in goal:
                        for col, val in ((3, np.angle(et[a][t]) / np.pi * 180), (5, np.angle(ep[a][t]) / np.pi * 180)):
                            if abs(float(rows[i][col]) - val) > 0.00501:
                                return ('C19:far-field-absolute:phase-wrong', 'V/m table prints the phase %r degrees of a field of magnitude %.3g V/m as %s'
                                        % (val, abs((et if col == 3 else ep)[a][t]), rows[i][col]), dict(kind='report', goal=goal))
                        for col, val in ((2, abs(et[a][t])), (4, abs(ep[a][t]))):
                            if abs(float(rows[i][col]) - val) > 5.5e-4 * val:
                                return ('C19:far-field-absolute:magnitude-wrong', 'V/m table prints |E| = %r as %s' % (val, rows[i][col]), dict(kind='report', goal=goal))
                    elif 'phases' in goal:
                        for col, val in ((3, np.angle(et[a][t]) / np.pi * 180), (5, np.angle(ep[a][t]) / np.pi * 180)):
                            if not ok(float(rows[i][col]), val):
                                return ('C19:far-field-absolute:phase-%8.2f', 'V/m table prints the phase %r degrees as %s (2 decimals)'
                                        % (val, rows[i][col]), dict(kind='report', goal=goal))
                    else:
                        for col, val in ((2, abs(et[a][t])), (4, abs(ep[a][t]))):
                            if abs(float(rows[i][col]) - val) > 5e-6 * val * (1 + 1e-9):
                                return ('C19:far-field-absolute:%20.3E', 'V/m table prints |E| = %r as %s (4 significant digits)'
                                        % (val, rows[i][col]), dict(kind='report', goal=goal))
                    i += 1
        return None
    if goal.startswith('current table: junction rows'):
        jr = []
        for ln in m.currents_as_mininec().split('\n'):
            f_ = ln.split()
            if len(f_) == 5 and f_[0] == 'J':
                jr.append(tuple(float(x) for x in f_[1:]))
        for re_, im_, mag, ph in jr:
            if not ok(mag, abs(complex(re_, im_))) and abs(mag - abs(complex(re_, im_))) > 1e-6 * abs(mag):
                return ('C19:current-table:junction-row', 'junction row prints magnitude %r for %r' % (mag, complex(re_, im_)), dict(kind='report', goal=goal))
        ends = [np.asarray(e, dtype=float) for w in m.geo for e in w.endpoints]
        for p in m.pulses:
            if p.geo[0] is p.geo[1]:
                continue
            pt = np.asarray(p.point, dtype=float)
            if sum(1 for e in ends if np.linalg.norm(e - pt) < 1e-6) != 2:
                continue
            cur = m.current[p.idx]
            hits = sum(1 for re_, im_, mag, ph in jr if (ok(re_, cur.real) and ok(im_, cur.imag)) or (ok(re_, -cur.real) and ok(im_, -cur.imag)))
            if hits < 2:
                return ('C19:current-table:junction-pulse-missing', '%s: the current %r of junction pulse %d is carried by %d junction rows instead of the two wire ends it joins'
                        % (gname, cur, p.idx + 1, hits), dict(kind='report', goal=goal))
        return None
    if goal.startswith('current table'):
        for ln in m.currents_as_mininec().split('\n'):
            f_ = ln.split()
            if len(f_) == 5 and f_[0] not in ('J', 'E', 'NO.') and not ln.startswith('PULSE'):
                k = int(float(f_[0])) - 1
                cur = m.current[k]
                if not (ok(float(f_[1]), cur.real) and ok(float(f_[2]), cur.imag) and ok(float(f_[3]), abs(cur))):
                    return ('C19:current-table', 'current row %d prints %s for %r' % (k + 1, f_[1:], cur), dict(kind='report', goal=goal))
        return None
    if goal.startswith('source data'):
        txt = m.source_data_as_mininec()
        blocks = txt.split('PULSE')[1:]
        for b, s_, k in zip(blocks, srcs, sp):
            nums = re.findall(r'[-+]?\d*\.?\d+(?:E[-+]?\d+)?', b)
            Ik = m.current[k]
            v = s_.voltage
            want = (v.real, v.imag, Ik.real, Ik.imag, (v / Ik).real, (v / Ik).imag, 0.5 * (v * np.conj(Ik)).real)
            for t_, w_ in zip(nums[1:8], want):
                if not ok(float(t_), w_):
                    return ('C19:source-data', 'source data prints %s for %r' % (t_, w_), dict(kind='report', goal=goal))
        return None
    return None
