"""C07 -- currents are linear in the source voltages; source data are V/I and Re(V I*)/2."""
import itertools
import z3
import numpy as np

from .common import Check, run_check, prove_paths, close
import symx
from symx import SR, SC, core
from symx.core import eq_term
from refmodels import catalogue
from .c08 import _sym_matrix, _stub_fill, pos


def _solve(M, gname, f, Z, volts, pulses):
    """Build the model, register the sources, compute with the stubbed fill."""
    m = catalogue.build(M, gname, f=f)
    _stub_fill(m, Z)
    srcs = []
    for v, p in zip(volts, pulses):
        s = M.Excitation(v)
        m.register_source(s, p)
        srcs.append(s)
    m.compute()
    return m, srcs


def _real_solve(mm, gname, f, Zc, volts, pulses):
    m = catalogue.build(mm, gname, f=f)

    def fill():
        m.Z = Zc.copy()
    m.compute_impedance_matrix = fill
    srcs = []
    for v, p in zip(volts, pulses):
        s = mm.Excitation(complex(v))
        m.register_source(s, p)
        srcs.append(s)
    m.compute()
    return m, srcs


def linear(ck, sh, mm):
    M = sh.mininec
    # geometry, n pulses, source pulses
    cases = [('G1', 3, (1,)), ('G8', 3, (2, 0)), ('G2', 4, (2, 0))]
    if ck.tier == 'thorough':
        cases += [('G7', 4, (0, 2, 3)), ('G2', 4, (2, 0, 3)), ('G9', 6, (0, 3))]
    for gname, n, pulses in cases:
        k = len(pulses)
        symbolic_Z = n <= 4

        def fn(gname=gname, n=n, pulses=pulses, k=k, symbolic_Z=symbolic_Z):
            f = pos('f', 0.1, 1000)
            V = [SC.var('V%d' % i) for i in range(k)]
            a = SC.var('a')
            c = symx.ctx()
            c.assume(z3.Or(a.nr != 0, a.ni != 0))
            for v in V:
                c.assume(z3.Or(v.nr != 0, v.ni != 0))
            if symbolic_Z:
                Z = _sym_matrix(n)
                zin = list(Z.reshape(-1))
            else:
                Z = _concrete_Z(mm, gname)
                zin = []
            with symx.object_arrays():
                m0, s0 = _solve(M, gname, f, Z, V, pulses)
                ma, sa = _solve(M, gname, f, Z, [a * v for v in V], pulses)
                singles, alone = [], []
                for i in range(k):
                    vs = [V[j] if j == i else 0j for j in range(k)]
                    mi, si = _solve(M, gname, f, Z, vs, pulses)
                    singles.append(mi.current)
                    # the same source as the only registered one: a source held at 0 V is no source
                    ma1, sa1 = _solve(M, gname, f, Z, [V[i]], [pulses[i]])
                    alone.append(ma1.current)
                # registration order must not matter
                mr, sr = _solve(M, gname, f, Z, V[::-1], pulses[::-1])
                data = [(s.impedance, s.power, s.current, s.voltage, s.idx) for s in s0]
                dataa = [(s.impedance, s.power) for s in sa]
            return dict(inputs=dict(f=f, V=V, a=a, Z=zin), I0=m0.current, Ia=ma.current,
                        singles=singles, alone=alone, Irev=mr.current, data=data, dataa=dataa, power=m0.power, powera=ma.power,
                        n=n, a=a, V=V, m=m0)

        def goals(o):
            n, a = o['n'], o['a']
            g = [('homogeneity I(aV)=a I(V)',
                  z3.And(*[eq_term(o['Ia'][i], a * o['I0'][i]) for i in range(n)]))]
            if len(o['singles']) > 1:
                g.append(('superposition', z3.And(*[
                    eq_term(o['I0'][i], sum((s[i] for s in o['singles'][1:]), o['singles'][0][i]))
                    for i in range(n)])))
                g.append(('a source held at 0 V acts like no source', z3.And(*[
                    eq_term(a[i], b[i]) for a, b in zip(o['singles'], o['alone']) for i in range(n)])))
                g.append(('currents do not depend on the order in which sources are registered', z3.And(*[
                    eq_term(o['I0'][i], o['Irev'][i]) for i in range(n)])))
            # total input power used to normalise every field table: sum of Re(V I*)/2, scales with |a|^2 (hence the dBi
            # pattern does not change with a complex factor: C10 shows it depends on currents and power only through I I*/P)
            tot = 0.0
            for j, (z, p, cur, v, idx) in enumerate(o['data']):
                Ik, Vj = SC.lift(o['I0'][idx]), SC.lift(o['V'][j])
                tot = tot + (Vj.re * Ik.re + Vj.im * Ik.im) * 0.5
            for j, (z, p, cur, v, idx) in enumerate(o['data']):
                Ik = o['I0'][idx]
                g.append(('source %d: reported current is the feed-pulse current' % j, eq_term(cur, Ik)))
                g.append(('source %d: impedance = V/I' % j, eq_term(z * Ik, o['V'][j])))
                g.append(('source %d: impedance invariant under V -> aV' % j, eq_term(o['dataa'][j][0], z)))
            return g

        def replay(c, gname_, out, gname=gname, n=n, pulses=pulses, k=k, symbolic_Z=symbolic_Z):
            Zc = np.array(c['Z'], dtype=complex).reshape(n, n) if symbolic_Z else _concrete_Z(mm, gname)
            V = [complex(v) for v in c['V']]
            a = complex(c['a'])
            m0, s0 = _real_solve(mm, gname, c['f'], Zc, V, pulses)
            ma, sa = _real_solve(mm, gname, c['f'], Zc, [a * v for v in V], pulses)
            tol = 1e-9 * max(np.linalg.cond(Zc), 1)
            scale = max(abs(m0.current).max(), 1e-300)
            bad = None
            if not np.allclose(ma.current, a * m0.current, rtol=tol, atol=tol * scale * abs(a)):
                bad = 'I(aV) != a I(V): %r vs %r' % (ma.current, a * m0.current)
            tot = np.zeros(n, dtype=complex)
            for i in range(k):
                vs = [V[j] if j == i else 0j for j in range(k)]
                mi, _ = _real_solve(mm, gname, c['f'], Zc, vs, pulses)
                tot += mi.current
            if bad is None and not np.allclose(tot, m0.current, rtol=tol, atol=tol * scale):
                bad = 'superposition fails: sum of single-source responses %r, joint response %r' % (tot, m0.current)
            for i in range(k):
                if bad:
                    break
                vs = [V[j] if j == i else 0j for j in range(k)]
                mi, _ = _real_solve(mm, gname, c['f'], Zc, vs, pulses)
                m1, _ = _real_solve(mm, gname, c['f'], Zc, [V[i]], [pulses[i]])
                if not np.allclose(mi.current, m1.current, rtol=tol, atol=tol * scale):
                    bad = ('source %d alone gives %r, the same source with the others held at 0 V gives %r'
                           % (i, m1.current, mi.current))
            if bad is None and k > 1:
                mr, _ = _real_solve(mm, gname, c['f'], Zc, V[::-1], list(pulses)[::-1])
                if not np.allclose(mr.current, m0.current, rtol=tol, atol=tol * scale):
                    bad = 'currents depend on the order of source registration: %r vs %r' % (m0.current, mr.current)
            if bad is None:
                ptot = sum(0.5 * (V[j] * np.conj(m0.current[pulses[j]])).real for j in range(k))
                if not close(m0.power, ptot, 1e-9, 1e-12 * abs(ptot)):
                    bad = 'total input power %r is not the sum of Re(V I*)/2 = %r (this power normalises the dBi and V/m tables)' % (m0.power, ptot)
                elif not close(ma.power, abs(a) ** 2 * m0.power, max(tol, 1e-9), 1e-12 * abs(ptot)):
                    bad = 'total input power does not scale with |a|^2: %r vs %r' % (ma.power, abs(a) ** 2 * m0.power)
            for j, s in enumerate(s0):
                if bad:
                    break
                Ik = m0.current[pulses[j]]
                if not close(s.impedance, V[j] / Ik, 1e-9):
                    bad = 'source %d impedance %r != V/I %r' % (j, s.impedance, V[j] / Ik)
                elif not close(s.power, 0.5 * (V[j] * np.conj(Ik)).real, 1e-9, 1e-12 * abs(V[j] * Ik)):
                    bad = 'source %d power %r != Re(VI*)/2 %r' % (j, s.power, 0.5 * (V[j] * np.conj(Ik)).real)
                elif not close(sa[j].impedance, s.impedance, tol):
                    bad = 'source %d impedance changes with a: %r -> %r' % (j, s.impedance, sa[j].impedance)
            if bad is None:
                return None
            return ('C07:linear:%s:%s' % (gname, ','.join(map(str, pulses))), bad,
                    dict(kind='linear', geometry=gname, pulses=pulses))

        prove_paths(ck, 'linear-%s-%s' % (gname, 'x'.join(map(str, pulses))), fn, goals, replay)
        ck.bounds.setdefault('cases', []).append('%s n=%d sources on pulses %s (%s Z)' % (
            gname, n, pulses, 'arbitrary symbolic' if symbolic_Z else 'concrete catalogue'))


def reuse(ck, sh, mm):
    """One model object solved several times with the excitation changed in between (sources replaced, a
    source added, a voltage changed) must give the currents of a fresh object with the final excitation --
    superposition experiments are normally done exactly this way."""
    M = sh.mininec
    cases = [('G8', 3, 2, 0), ('G2', 4, 1, 3)] if ck.tier == 'quick' else [('G8', 3, 2, 0), ('G2', 4, 1, 3), ('G1', 3, 0, 2), ('G7', 4, 0, 3)]
    for gname, n, p1, p2 in cases:
        def fn(gname=gname, n=n, p1=p1, p2=p2):
            f = pos('f', 0.1, 1000)
            V1, V2 = SC.var('V1'), SC.var('V2')
            c = symx.ctx()
            for v in (V1, V2):
                c.assume(z3.Or(v.nr != 0, v.ni != 0))
            Z = _sym_matrix(n)
            with symx.object_arrays():
                m = catalogue.build(M, gname, f=f)
                _stub_fill(m, Z)
                s1 = M.Excitation(V1)
                m.register_source(s1, p1)
                m.compute()
                # (a) replace the sources (the idiom of the package's own doctests)
                m.sources = []
                m.register_source(M.Excitation(V2), p2)
                m.compute()
                Ia = m.current
                za = m.sources[0].impedance
                # (b) add a second source to the same object
                m.register_source(M.Excitation(V1), p1)
                m.compute()
                Ib = m.current
                fa, _ = _solve(M, gname, f, Z, [V2], [p2])
                fb, _ = _solve(M, gname, f, Z, [V2, V1], [p2, p1])
            return dict(inputs=dict(f=f, V1=V1, V2=V2, Z=list(Z.reshape(-1))), Ia=Ia, Ib=Ib, fa=fa.current, fb=fb.current,
                        za=za, fza=fa.sources[0].impedance, n=n)

        def goals(o):
            n = o['n']
            return [('after replacing the sources: currents of a fresh object', z3.And(*[eq_term(o['Ia'][i], o['fa'][i]) for i in range(n)])),
                    ('after replacing the sources: impedance of a fresh object', eq_term(o['za'], o['fza'])),
                    ('after adding a source: currents of a fresh object', z3.And(*[eq_term(o['Ib'][i], o['fb'][i]) for i in range(n)]))]

        def replay(c, gn, out, gname=gname, n=n, p1=p1, p2=p2):
            Zc = np.array(c['Z'], dtype=complex).reshape(n, n)
            V1, V2 = complex(c['V1']), complex(c['V2'])
            m = catalogue.build(mm, gname, f=c['f'])

            def fill():
                m.Z = Zc.copy()
            m.compute_impedance_matrix = fill
            m.register_source(mm.Excitation(V1), p1)
            m.compute()
            m.sources = []
            m.register_source(mm.Excitation(V2), p2)
            m.compute()
            Ia = np.array(m.current)
            m.register_source(mm.Excitation(V1), p1)
            m.compute()
            Ib = np.array(m.current)
            fa, _ = _real_solve(mm, gname, c['f'], Zc, [V2], [p2])
            fb, _ = _real_solve(mm, gname, c['f'], Zc, [V2, V1], [p2, p1])
            tol = 1e-9 * max(np.linalg.cond(Zc), 1)
            for nm, a, b in (('replacing the sources', Ia, fa.current), ('adding a source', Ib, fb.current)):
                if not np.allclose(a, b, rtol=tol, atol=tol * max(abs(b).max(), 1e-300)):
                    return ('C07:reuse:%s' % gname, '%s: after %s on a model that was already solved the currents are %r, a fresh model gives %r'
                            % (gname, nm, a, np.array(b)), dict(kind='reuse', geometry=gname))
            return None
        prove_paths(ck, 'reuse-%s' % gname, fn, goals, replay)
        ck.bounds.setdefault('cases', []).append('%s: one object solved three times (sources replaced, source added), arbitrary Z' % gname)


def reuse_loaded(ck, sh, mm):
    """As `reuse`, but with the REAL matrix fill (concrete catalogue geometry, nothing stubbed) and a load of arbitrary
    impedance on the model: re-solving a loaded antenna after the excitation was changed gives the currents of a fresh
    model -- whatever a solve leaves behind in the object (matrix, load terms, right-hand side) must not be used again."""
    M = sh.mininec
    for gname, p1, p2, pl in (('G8', 2, 0, 1), ('G1', 0, 2, 1)) if ck.tier == 'quick' else (('G8', 2, 0, 1), ('G1', 0, 2, 1), ('G7', 0, 3, 2)):
        def fn(gname=gname, p1=p1, p2=p2, pl=pl):
            V1, V2, ZL = SC.var('V1'), SC.var('V2'), SC.var('ZL')
            c = symx.ctx()
            for v in (V1, V2):
                c.assume(z3.Or(v.nr != 0, v.ni != 0))

            def build():
                m = catalogue.build(M, gname)
                m.register_load(M.Impedance_Load(ZL), pl)
                return m
            with symx.object_arrays():
                m = build()
                m.register_source(M.Excitation(V1), p1)
                m.compute()
                m.sources = []
                m.register_source(M.Excitation(V2), p2)
                m.compute()
                Ia = m.current
                fresh = build()
                fresh.register_source(M.Excitation(V2), p2)
                fresh.compute()
            return dict(inputs=dict(V1=V1, V2=V2, ZL=ZL), Ia=Ia, If=fresh.current, Zh=m.Z, Zf=fresh.Z, n=len(m.pulses))

        def goals(o):
            n = o['n']
            return [('second solve of a loaded model: system matrix of a fresh model', z3.And(*[eq_term(o['Zh'][i][i], o['Zf'][i][i]) for i in range(n)])),
                    ('second solve of a loaded model: currents of a fresh model', z3.And(*[eq_term(o['Ia'][i], o['If'][i]) for i in range(n)]))]

        def replay(c, gn, out, gname=gname, p1=p1, p2=p2, pl=pl):
            V1, V2, ZL = complex(c['V1']), complex(c['V2']), complex(c['ZL'])
            if ZL == 0:
                ZL = 50 + 20j

            def build():
                m = catalogue.build(mm, gname)
                m.register_load(mm.Impedance_Load(ZL), pl)
                return m
            m = build()
            m.register_source(mm.Excitation(V1), p1)
            m.compute()
            m.sources = []
            m.register_source(mm.Excitation(V2), p2)
            m.compute()
            fresh = build()
            fresh.register_source(mm.Excitation(V2), p2)
            fresh.compute()
            a, b = np.array(m.current), np.array(fresh.current)
            if np.allclose(a, b, rtol=1e-9, atol=1e-12 * abs(b).max()):
                return None
            return ('C07:reuse-loaded:%s' % gname, '%s with a load %r on pulse %d: after the sources were replaced on a model that was already solved '
                    'the currents are %r, a fresh model gives %r' % (gname, ZL, pl + 1, a, b), dict(kind='reuse-loaded', geometry=gname))
        prove_paths(ck, 'reuse-loaded-%s' % gname, fn, goals, replay, timeout_ms=30000)


def floor_scale(ck, sh, mm):
    """The dBi table replaces gains below a floor by -999.  The pattern must not change with a common factor on the voltages, so
    WHICH directions are cut off must not change either: the real compute_far_field runs for concrete generic currents I and power P
    (reference) and for a I and a^2 P with an ARBITRARY positive factor a (1e-20..1e20); every path of the cut-off comparison must
    cut off exactly the directions of the reference."""
    from .c10 import _set_currents
    M = sh.mininec
    for gname in (('G1', 'G8') if ck.tier == 'quick' else ('G1', 'G8', 'G2', 'G9')):
        objs, gnd = catalogue.spec(gname)
        zen, azi = (25.0, 30.0, 2), (15.0, 70.0, 2)
        m0 = catalogue.build(mm, gname)
        n = len(m0.pulses)
        I0 = [complex(0.004 * (1 + 0.3 * k), 0.003 * (0.5 - 0.2 * k)) for k in range(n)]
        P0 = 0.0123
        m0.current = np.array(I0)
        m0.power = P0
        m0.compute_far_field(mm.Angle(*zen), mm.Angle(*azi))
        g0 = np.array(m0.far_field.gain, dtype=float).reshape(-1)

        def fn(gname=gname, I0=I0, P0=P0, zen=zen, azi=azi):
            a = pos('a', 1e-20, 1e20)
            with symx.object_arrays():
                m = catalogue.build(M, gname)
                _set_currents(m, [SC.lift(x) * a for x in I0])
                m.power = a * a * P0
                m.compute_far_field(M.Angle(*zen), M.Angle(*azi))
                g = list(np.asarray(m.far_field.gain, dtype=object).reshape(-1))
            return dict(inputs=dict(a=a), g=g)

        def goals(o, g0=g0):
            cut, val = [], []
            for x, y in zip(o['g'], g0):
                is_cut = (not symx.is_sym(x)) and float(x) <= -998.0
                cut.append(z3.BoolVal(is_cut == (y <= -998.0)))
                if not is_cut and y > -998.0:
                    d = SR.lift(x) - float(y)
                    val.append(z3.And((d <= 1e-6).t, (d >= -1e-6).t))
            # (the VALUES of the other entries are the subject of the homogeneity clause and of C10; here: which entries are cut off)
            return [('the same directions are cut off at -999 dBi for every common factor on the voltages', z3.And(*cut))]

        def replay(c, gn, out, gname=gname, I0=I0, P0=P0, zen=zen, azi=azi, g0=g0):
            a = float(c['a'])
            m = catalogue.build(mm, gname)
            m.current = np.array(I0) * a
            m.power = a * a * P0
            m.compute_far_field(mm.Angle(*zen), mm.Angle(*azi))
            g = np.array(m.far_field.gain, dtype=float).reshape(-1)
            if np.allclose(g, g0, rtol=0, atol=1e-6):
                return None
            k = int(np.argmax(np.abs(g - g0)))
            return ('C07:dbi-floor:%s' % gname, '%s: with all voltages (currents) multiplied by %r the dBi table entry %d changes from %r to %r'
                    % (gname, a, k, float(g0[k]), float(g[k])), dict(kind='dbi-floor', geometry=gname, a=a))
        prove_paths(ck, 'dbi-floor-%s' % gname, fn, goals, replay, max_paths=600, timeout_ms=20000)


def total_power(ck, sh, mm):
    """compute() leaves in Mininec.power -- the number every dBi / V/m / near-field table is normalised with -- the sum of
    Re(V I*)/2 over the sources, for ALL complex voltages and whatever currents solve the system (the solve is replaced
    by unknown currents constrained by Z I = rhs, so the identity is decided for every current vector)."""
    from symx import npf
    M = sh.mininec
    cases = [('G8', 3, (2, 0)), ('G2', 4, (1, 3))] if ck.tier == 'quick' else [('G8', 3, (2, 0)), ('G2', 4, (1, 3)), ('G9', 6, (0, 3, 5)), ('G1', 3, (1,))]
    for gname, n, pulses in cases:
        def fn(gname=gname, n=n, pulses=pulses):
            f = pos('f', 0.1, 1000)
            V = [SC.var('V%d' % i) for i in range(len(pulses))]
            Z = _sym_matrix(n)
            old = npf.state.solve_mode
            npf.state.solve_mode = 'unknowns'
            try:
                with symx.object_arrays():
                    m, srcs = _solve(M, gname, f, Z, V, pulses)
            finally:
                npf.state.solve_mode = old
            return dict(inputs=dict(f=f, V=V, Z=list(Z.reshape(-1))), power=m.power, I=[m.current[p] for p in pulses], V=V)

        def goals(o):
            tot = 0.0
            for Ik, Vj in zip(o['I'], o['V']):
                Ik, Vj = SC.lift(Ik), SC.lift(Vj)
                tot = tot + (Vj.re * Ik.re + Vj.im * Ik.im) * 0.5
            return [('Mininec.power = sum of Re(V I*)/2 over the sources', eq_term(o['power'], tot))]

        def replay(c, gn, out, gname=gname, n=n, pulses=pulses):
            Zc = np.array(c['Z'], dtype=complex).reshape(n, n)
            if abs(np.linalg.det(Zc)) < 1e-12:
                Zc = Zc + np.eye(n) * (1 + 1j)
            V = [complex(v) for v in c['V']]
            if all(abs(v.imag) < 1e-12 for v in V):
                V = [v * (0.6 + 0.8j) for v in V] if any(V) else [0.6 + 0.8j] * len(V)
            m, srcs = _real_solve(mm, gname, c['f'], Zc, V, pulses)
            ptot = sum(0.5 * (V[j] * np.conj(m.current[pulses[j]])).real for j in range(len(pulses)))
            if close(m.power, ptot, 1e-9, 1e-12 * abs(ptot)):
                return None
            return ('C07:total-power:%s' % gname, '%s, sources %r on pulses %s: Mininec.power = %r, sum of Re(V I*)/2 = %r (this power normalises '
                    'the dBi, V/m and near-field tables, so the pattern would change with a common complex factor)' % (gname, V, [p + 1 for p in pulses], m.power, ptot),
                    dict(kind='total-power', geometry=gname))
        prove_paths(ck, 'total-power-%s' % gname, fn, goals, replay)


def source_data(ck, sh, mm):
    """V/I and Re(V I*)/2 for an ARBITRARY current vector (the solve is not involved)."""
    M = sh.mininec
    cases = [('G1', (1,)), ('G9', (0, 3, 5))] if ck.tier == 'quick' else \
            [('G1', (1,)), ('G9', (0, 3, 5)), ('G2', (2, 0)), ('G8', (2,)), ('G5', (1, 3, 4))]
    for gname, pulses in cases:
        def fn(gname=gname, pulses=pulses):
            f = pos('f', 0.1, 1000)
            m = catalogue.build(M, gname, f=f)
            n = len(m.pulses)
            I = [SC.var('I%d' % i) for i in range(n)]
            V = [SC.var('V%d' % i) for i in range(len(pulses))]
            c = symx.ctx()
            srcs = []
            for v, p in zip(V, pulses):
                c.assume(z3.Or(I[p].nr != 0, I[p].ni != 0))
                s = M.Excitation(v)
                m.register_source(s, p)
                srcs.append(s)
            cur = np.empty(n, dtype=object)
            cur[:] = I
            m.current = cur
            with symx.object_arrays():
                data = [(s.impedance, s.power, s.current) for s in srcs]
                total = sum(s.power for s in srcs)
            return dict(inputs=dict(f=f, I=I, V=V), data=data, I=I, V=V, pulses=pulses, total=total)

        def goals(o):
            g = []
            tot = 0.0
            for j, (z, p, cur) in enumerate(o['data']):
                Ik, Vj = o['I'][o['pulses'][j]], o['V'][j]
                g.append(('source %d: reported current is the feed-pulse current' % j, eq_term(cur, Ik)))
                g.append(('source %d: impedance = V/I' % j, eq_term(z * Ik, Vj)))
                ref = (Vj.re * Ik.re + Vj.im * Ik.im) * 0.5
                tot = tot + ref
                g.append(('source %d: power = Re(V I*)/2' % j, eq_term(p, ref)))
            g.append(('total power = sum of source powers', eq_term(o['total'], tot)))
            return g

        def replay(c, gname_, out, gname=gname, pulses=pulses):
            m = catalogue.build(mm, gname, f=c['f'])
            m.current = np.array([complex(x) for x in c['I']])
            bad = None
            for j, p in enumerate(pulses):
                s = mm.Excitation(complex(c['V'][j]))
                m.register_source(s, p)
                V, I = complex(c['V'][j]), m.current[p]
                if not close(s.impedance, V / I, 1e-9):
                    bad = 'source %d on pulse %d: impedance %r, V/I = %r' % (j, p + 1, s.impedance, V / I)
                elif not close(s.power, 0.5 * (V * np.conj(I)).real, 1e-9, 1e-12 * abs(V * I)):
                    bad = 'source %d on pulse %d: power %r, Re(VI*)/2 = %r' % (j, p + 1, s.power, 0.5 * (V * np.conj(I)).real)
                if bad:
                    break
            if bad is None:
                return None
            return ('C07:source-data:%s' % gname, bad, dict(kind='source_data', geometry=gname, pulses=pulses))
        prove_paths(ck, 'source-data-%s' % gname, fn, goals, replay)
        ck.bounds.setdefault('cases', []).append('%s source data for arbitrary currents, sources on %s' % (gname, pulses))


_zcache = {}


def _concrete_Z(mm, gname):
    if gname not in _zcache:
        m = catalogue.build(mm, gname)
        m.compute_impedance_matrix()
        _zcache[gname] = m.Z.copy()
    return _zcache[gname]


def main(args):
    ck = Check('C07', args)
    sh = symx.load()
    ck.shadow_stats = sh.stats
    mm = symx.real_mininec()
    with symx.shadow.trace_functions(sh):
        linear(ck, sh, mm)
        reuse(ck, sh, mm)
        reuse_loaded(ck, sh, mm)
        floor_scale(ck, sh, mm)
        total_power(ck, sh, mm)
        source_data(ck, sh, mm)
    ck.functions = sh.entered
    ck.assumptions += [
        'reals stand in for IEEE doubles; LAPACK rounding not modelled',
        'system matrix: arbitrary complex n x n (n <= 4) with det != 0, or the concrete matrix of a catalogue member',
        'sources sit on pairwise different pulses (two sources on one pulse: the code keeps the last; outside the claim)',
        'a != 0, every V_i != 0, f in [0.1,1000] MHz',
    ]
    ck.stubs += ['compute_impedance_matrix -> arbitrary symbolic Z', 'np.linalg.solve -> exact Cramer']
    ck.outside += ['two sources on the same pulse', 'LAPACK rounding', 'dBi invariance is decided under C10 (scaling of currents and power)']
    return ck.finish('Real register_source/compute_rhs/compute_currents/Excitation executed on symbolic voltages, '
                     'factor a, frequency and an arbitrary symbolic system matrix; homogeneity, superposition and the '
                     'source-data formulas are decided by z3 as polynomial identities for all values.')


if __name__ == '__main__':
    run_check('C07', main)
