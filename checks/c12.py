"""C12 -- number and placement of current unknowns follow from the wire topology.

The real Mininec.__init__ (compute_tags, compute_segments, compute_ground, compute_connections,
Pulse.__init__, Pulse_Container.add) runs on SYMBOLIC wire end coordinates (abstract Euclidean
length, generic position).  The coincidence pattern of the ends is decided by the solver first,
so each explored path is one wire-graph class with all coordinates universally quantified.
"""
import itertools
import multiprocessing as mp
import os
import time
import z3
import numpy as np

from .common import Check, run_check, close
import symx
from symx import SR, core, npf
from symx.core import eq_term
from refmodels import symtopo


def _vec_eq(a, b):
    return z3.And(*[eq_term(x, y) for x, y in zip(a, b)])


def oracle_count(nw, nsegs, blk, gnd):
    n = sum(s - 1 for s in nsegs)
    n += sum(1 for g in gnd if g)
    blocks = {}
    for i, b in enumerate(blk):
        if not gnd[i]:
            blocks.setdefault(b, []).append(i)
    n += sum(len(v) - 1 for v in blocks.values() if len(v) > 1)
    return n, blocks


def topo_job(args):
    nw, nsegs, ground, qt, fixed = args
    sh = symx.load()
    M = sh.mininec
    mm = symx.real_mininec()
    res = dict(obls=[], paths=0, solver_s=0.0, queries=0, functions=[], violations=[], truncated=False)

    def fn():
        c = symx.ctx()
        m, pts, blk, gnd = symtopo.build(M, nw, nsegs, ground)
        return dict(m=m, pts=pts, blk=blk, gnd=gnd)

    def pre():
        # first pair decisions fixed per job so that the jobs partition the path space
        return []

    with symx.shadow.trace_functions(sh):
        paths = symx.explore(fn, query_timeout_ms=qt, max_paths=20000,
                             assumptions=[lambda: _fix(nw, ground, fixed)] if fixed is not None else ())
    res['functions'] = sorted(sh.entered)
    res['paths'] = len(paths)
    res['solver_s'] = paths.solver_s
    res['queries'] = paths.queries
    res['truncated'] = paths.truncated
    name0 = 'T%d%s-n%s%s' % (nw, 'g' if ground else 'f', ''.join(map(str, nsegs)), '' if fixed is None else '-j%d' % fixed)
    for pi, p in enumerate(paths):
        if p.exc is not None:
            if isinstance(p.exc, ValueError):
                continue                       # rejected model (zero length, both ends grounded ...): C20's business
            raise symx.HarnessError('%s path %d: %r' % (name0, pi, p.exc)) from p.exc
        o = p.value
        m, blk, gnd = o['m'], o['blk'], o['gnd']
        name = '%s/%s%s' % (name0, ''.join(map(str, blk)), ''.join('g' if g else '-' for g in gnd) if ground else '')
        want, blocks = oracle_count(nw, nsegs, blk, gnd)
        got = len(m.pulses)
        conc = None
        ok = (got == want)
        # numbering 1..N without gaps in object order
        order = [pp.idx for g in m.geo for pp in g.pulses]
        ok_num = (order == list(range(got))) and [pp.idx for pp in m.pulses] == list(range(got))
        if not ok or not ok_num:
            s = z3.Solver()
            s.set('timeout', qt)
            s.add(p.pc + p.axioms)
            if str(s.check()) == 'sat':
                conc = [[float(core.model_value(s.model(), x)) for x in pt] for pt in o['pts']]
                v = replay_count(mm, nw, nsegs, ground, conc)
                if v:
                    res['violations'].append(v)
                    res['obls'].append((name + '/count+numbering', 'violation', v[1]))
                else:
                    res['obls'].append((name + '/count+numbering', 'spurious', dict(points=conc)))
            else:
                res['obls'].append((name + '/count+numbering', 'inconclusive', None))
            continue
        res['obls'].append((name + '/count+numbering', 'discharged', 'N=%d' % got))
        # placement identities, for all coordinates of this class
        goals = []
        invz = np.array([1, 1, -1])
        for pp in m.pulses:
            for h in (0, 1):
                seg = pp.segs[h]
                on_p1 = _vec_eq(pp.point, seg.p1)
                on_p2 = _vec_eq(pp.point, seg.p2)
                if pp.ground[h]:
                    # the image half: far end is the mirror image of the segment's other end
                    far1 = _vec_eq(pp.ends[h], seg.p1 * invz)
                    far2 = _vec_eq(pp.ends[h], seg.p2 * invz)
                else:
                    far1 = _vec_eq(pp.ends[h], seg.p1)
                    far2 = _vec_eq(pp.ends[h], seg.p2)
                goals.append(z3.Or(z3.And(on_p1, far2), z3.And(on_p2, far1)))
        s = z3.Solver()
        s.set('timeout', qt)
        s.add(p.pc + p.axioms)
        s.add(z3.Not(z3.And(*goals)))
        t = time.time()
        r = str(s.check())
        res['solver_s'] += time.time() - t
        res['queries'] += 1
        on = name + '/placement'
        if r == 'unsat':
            res['obls'].append((on, 'discharged', '%d pulses x 2 halves' % got))
        elif r == 'unknown':
            res['obls'].append((on, 'inconclusive', None))
        else:
            conc = [[float(core.model_value(s.model(), x)) for x in pt] for pt in o['pts']]
            v = replay_count(mm, nw, nsegs, ground, conc)
            if v:
                res['violations'].append(v)
                res['obls'].append((on, 'violation', v[1]))
            else:
                res['obls'].append((on, 'spurious', dict(points=conc)))
    return res


def _fix(nw, ground, fixed):
    """Job splitter: fix the coincidence of the first pairs of ends from the bits of `fixed`."""
    c = symx.ctx()
    # (re-create the same variables as symtopo.sym_points)
    pts = [tuple(SR.var('w%de%d_%s' % (w + 1, e + 1, ax)) for ax in 'xyz') for w in range(nw) for e in (0, 1)]
    pairs = [(0, 2), (0, 3), (1, 2), (1, 3)]
    out = []
    for bit, (a, b) in enumerate(pairs):
        eq = pts[a][0].n == pts[b][0].n
        out.append(eq if (fixed >> bit) & 1 else z3.Not(eq))
    return z3.And(*out)


def _real_model(mm, nw, nsegs, ground, pts, radii=(0.002, 0.003, 0.0025, 0.0035)):
    geo = [mm.Wire(nsegs[w], *pts[2 * w], *pts[2 * w + 1], radii[w]) for w in range(nw)]
    return mm.Mininec(29.98, geo, media=[mm.Medium(0, 0)] if ground else None)


def replay_count(mm, nw, nsegs, ground, pts):
    """Concrete replay: count formula, numbering and placement on the untouched package."""
    try:
        m = _real_model(mm, nw, nsegs, ground, pts)
    except ValueError:
        return None
    ends = [np.array(p, dtype=float) for p in pts]
    msl = min(np.linalg.norm(ends[2 * w + 1] - ends[2 * w]) / nsegs[w] for w in range(nw))
    tol = 1e-3 * msl
    gnd = [ground and abs(e[2]) < tol for e in ends]
    blk = list(range(len(ends)))
    for a in range(len(ends)):
        for b in range(a):
            if not gnd[a] and not gnd[b] and np.linalg.norm(ends[a] - ends[b]) <= tol:
                blk[a] = blk[b]
                break
    want, _ = oracle_count(nw, nsegs, blk, gnd)
    got = len(m.pulses)
    desc = 'wires %s' % [[list(map(float, pts[2 * w])), list(map(float, pts[2 * w + 1]))] for w in range(nw)]
    if got != want:
        return ('C12:count', '%d pulses created, topology formula gives %d (%s, ground=%s)' % (got, want, desc, ground),
                dict(kind='count', points=pts, nsegs=list(nsegs), ground=ground))
    order = [pp.idx for g in m.geo for pp in g.pulses]
    if order != list(range(got)):
        return ('C12:numbering', 'pulse numbers in object order are %s' % order,
                dict(kind='numbering', points=pts, nsegs=list(nsegs), ground=ground))
    invz = np.array([1, 1, -1])
    for pp in m.pulses:
        for h in (0, 1):
            seg = pp.segs[h]
            a, b = (seg.p1, seg.p2)
            if pp.ground[h]:
                fa, fb = a * invz, b * invz
            else:
                fa, fb = a, b
            t = 1e-9 * (1 + np.abs(pp.point).max())
            ok = (np.allclose(pp.point, a, atol=t) and np.allclose(pp.ends[h], fb, atol=t)) or \
                 (np.allclose(pp.point, b, atol=t) and np.allclose(pp.ends[h], fa, atol=t))
            if not ok:
                return ('C12:placement', 'pulse %d half %d: point %s / far end %s do not match its segment %s-%s (%s)'
                        % (pp.idx + 1, h, pp.point, pp.ends[h], a, b, desc),
                        dict(kind='placement', points=pts, nsegs=list(nsegs), ground=ground))
    return None


# ---------------------------------------------------------------------------------
# the matching tolerance: joined exactly when closer than 1/1000 of the shortest segment
# ---------------------------------------------------------------------------------

def tolerance_job(args):
    case, qt = args
    sh = symx.load()
    M = sh.mininec
    mm = symx.real_mininec()
    res = dict(obls=[], paths=0, solver_s=0.0, queries=0, functions=[], violations=[], truncated=False)
    # wire 1 has the shortest segments (0.25 m); junction candidate J = its second end
    A, J, B = (0.3, 0.2, 1.1), (0.9, 1.0, 1.7), (2.2, 1.4, 3.9)
    n1, n2 = 4, 2
    L1 = float(np.linalg.norm(np.array(J) - np.array(A)))
    msl = L1 / n1
    chain = case.startswith('chain-')
    moved = case.startswith('moved-')          # the second wire is entered one metre away and put in place by translate() before the model is built
    Cpt = (3.1, 0.2, 4.4)
    n3 = 2
    bound = {'near': 3e-4, 'far': 3e-3}.get(case.replace('chain-', '').replace('moved-', ''), 0.0)
    off = 1.0 if moved else 0.0
    taper = case.startswith('taper-')          # wire 1 is tapered towards its SECOND end (the junction candidate): its shortest segment is its last
    if taper:
        bound = {'taper-near': 1.5e-4, 'taper-far': 1.5e-3}[case]
        wt = mm.Wire(n1, *A, *J, 0.002)
        wt.segtype = 2
        wt.compute_segments()
        msl = min(float(sg.seg_len) for sg in wt.segments)          # from the segments themselves, not from the bookkeeping of the wire

    def fn():
        c = symx.ctx()
        d = [SR.var('d' + ax) for ax in 'xyz']
        for x in d:
            c.assume(z3.And(x.n >= core.RV(-bound), x.n <= core.RV(bound)))
        with symx.object_arrays():
            w1 = M.Wire(n1, *A, *J, 0.002)
            if taper:
                w1.segtype = 2
            w2 = M.Wire(n2, J[0] + d[0] + off, J[1] + d[1] + off, J[2] + d[2] + off, B[0] + off, B[1] + off, B[2] + off, 0.002)
            if moved:
                w2.translate(np.array([-off, -off, -off]))
            geo = [w1, w2]
            if chain:
                # a third wire that starts EXACTLY where the second ends: it must be joined whether or not the first joint is a fuzzy one
                geo.append(M.Wire(n3, *B, *Cpt, 0.002))
            m = M.Mininec(29.98, geo)
        return dict(m=m, d=d)

    with symx.shadow.trace_functions(sh):
        paths = symx.explore(fn, query_timeout_ms=qt, max_paths=50)
    res['functions'] = sorted(sh.entered)
    res['paths'] = len(paths)
    res['solver_s'] = paths.solver_s
    res['queries'] = paths.queries
    thr = SR.lift(1e-3 * msl)
    for pi, p in enumerate(paths):
        if p.exc is not None:
            raise symx.HarnessError('tolerance path %d: %r' % (pi, p.exc)) from p.exc
        o = p.value
        d = o['d']
        n = len(o['m'].pulses)
        base = (n1 - 1) + (n2 - 1) + ((n3 - 1) + 1 if chain else 0)
        joined = (n == base + 1)
        if not joined and n != base:
            # neither of the two counts the topology allows: the exact joint of the chain was lost (or an extra one made)
            pts = [A, J, J, B] + ([B, Cpt] if chain else [])
            v = replay_count(mm, 3 if chain else 2, (n1, n2, n3) if chain else (n1, n2), False, [A, J, tuple(J[i] + 1e-9 for i in range(3)), B] + ([B, Cpt] if chain else []))
            on = 'tolerance-%s/path%d/pulse count is one of the two the topology allows' % (case, pi)
            if v:
                res['violations'].append(('C12:tolerance:chain', v[1], v[2]))
                res['obls'].append((on, 'violation', v[1]))
            else:
                res['obls'].append((on, 'spurious', dict(pulses=n, allowed=[base, base + 1])))
            continue
        if chain:
            # the tolerance relation itself is decided on the two-wire frame; here the claim is the COUNT on every path: one
            # displacement of this path (solver model) says whether the first joint is a joint, the exact second joint always is
            s_ = z3.Solver()
            s_.set('timeout', qt)
            s_.add(p.pc + p.axioms)
            on = 'tolerance-%s/path%d/pulse count follows from which joints exist' % (case, pi)
            if str(s_.check()) != 'sat':
                res['obls'].append((on, 'inconclusive', None))
                continue
            dc = [float(core.model_value(s_.model(), x)) for x in d]
            dist = float(np.linalg.norm(dc))
            if abs(dist - 1e-3 * msl) < 1e-9 * msl:
                res['obls'].append((on, 'inconclusive', 'model on the tolerance boundary'))
                continue
            want = base + (1 if dist <= 1e-3 * msl else 0)
            if n == want:
                res['obls'].append((on, 'discharged', None))
                continue
            pts = [A, J, tuple(J[i] + dc[i] for i in range(3)), B, B, Cpt]
            v = replay_count(mm, 3, (n1, n2, n3), False, pts)
            if v:
                res['violations'].append(('C12:tolerance:chain', v[1], v[2]))
                res['obls'].append((on, 'violation', v[1]))
            else:
                res['obls'].append((on, 'spurious', dict(delta=dc, pulses=n, expected=want)))
            continue
        d2 = d[0] * d[0] + d[1] * d[1] + d[2] * d[2]
        # a margin of 1e-9 relative keeps float rounding of the norm out of the claim
        if joined:
            goal = (d2 <= thr * thr * (1 + 1e-9)).t
        else:
            goal = (d2 >= thr * thr * (1 - 1e-9)).t
        s = z3.Solver()
        s.set('timeout', qt)
        s.add(p.pc + p.axioms)
        s.add(z3.Not(goal))
        t = time.time()
        r = str(s.check())
        res['solver_s'] += time.time() - t
        res['queries'] += 1
        on = 'tolerance-%s/path%d/%s' % (case, pi, 'joined=>within' if joined else 'separate=>beyond')
        if r == 'unsat':
            res['obls'].append((on, 'discharged', None))
        elif r == 'unknown':
            res['obls'].append((on, 'inconclusive', None))
        else:
            dc = [float(core.model_value(s.model(), x)) for x in d]
            pts = [A, J, tuple(J[i] + dc[i] for i in range(3)), B] + ([B, Cpt] if chain else [])
            if moved:
                # the same construction on the real package: entered one metre away, moved into place, then matched
                w1r = mm.Wire(n1, *A, *J, 0.002)
                w2r = mm.Wire(n2, J[0] + dc[0] + off, J[1] + dc[1] + off, J[2] + dc[2] + off, B[0] + off, B[1] + off, B[2] + off, 0.002)
                w2r.translate(np.array([-off, -off, -off]))
                mr = mm.Mininec(29.98, [w1r, w2r])
                gap = float(np.linalg.norm(np.asarray(w2r.p1, dtype=float) - np.asarray(J)))
                want = (n1 - 1) + (n2 - 1) + (1 if gap <= 1e-3 * msl else 0)
                v = None
                if abs(gap - 1e-3 * msl) > 1e-9 and len(mr.pulses) != want:
                    v = ('C12:tolerance:moved', 'a wire moved into place by translate(): its end is %.3g m from the end of the other wire (tolerance %.3g m), the model has %d pulses, the topology formula gives %d'
                         % (gap, 1e-3 * msl, len(mr.pulses), want), dict(kind='tolerance-moved', delta=dc))
            elif taper:
                w1r = mm.Wire(n1, *A, *J, 0.002)
                w1r.segtype = 2
                w2r = mm.Wire(n2, J[0] + dc[0], J[1] + dc[1], J[2] + dc[2], *B, 0.002)
                mr = mm.Mininec(29.98, [w1r, w2r])
                gap = float(np.linalg.norm(np.asarray(dc)))
                want = (n1 - 1) + (n2 - 1) + (1 if gap <= 1e-3 * msl else 0)
                v = None
                if abs(gap - 1e-3 * msl) > 1e-9 * msl and len(mr.pulses) != want:
                    v = ('C12:tolerance:tapered', 'wire 1 tapered towards the junction end (shortest segment %.4g m, tolerance %.3g m): an end %.3g m away is %s; the model has %d pulses, the topology formula gives %d'
                         % (msl, 1e-3 * msl, gap, 'joined' if len(mr.pulses) > want else 'not joined', len(mr.pulses), want), dict(kind='tolerance-tapered', delta=dc))
            else:
                v = replay_count(mm, 3 if chain else 2, (n1, n2, n3) if chain else (n1, n2), False, pts)
            if v:
                v = ('C12:tolerance' + (':moved' if moved else ':tapered' if taper else ''), v[1], v[2])
                res['violations'].append(v)
                res['obls'].append((on, 'violation', v[1]))
            else:
                res['obls'].append((on, 'spurious', dict(delta=dc)))
    return res


def ground_height_job(args):
    """A wire end near the ground plane is grounded exactly when its height is within 1/1000 of the shortest segment
    of the plane -- on either side (a residue below zero is snapped to the plane like one above).  Height symbolic."""
    (qt,) = args
    sh = symx.load()
    M = sh.mininec
    mm = symx.real_mininec()
    res = dict(obls=[], paths=0, solver_s=0.0, queries=0, functions=[], violations=[], truncated=False)
    A, B = (0.3, 0.2, 0.0), (0.9, 1.0, 1.7)
    n1 = 4
    msl = float(np.linalg.norm(np.array(B) - np.array(A))) / n1
    eps = 1e-3 * msl
    for end in (0, 1):
        def fn(end=end):
            c = symx.ctx()
            h = SR.var('h')
            c.assume(z3.And(h.n >= core.RV(-0.9 * eps), h.n <= core.RV(3 * eps)))
            p = (A[0], A[1], h)
            with symx.object_arrays():
                w = M.Wire(n1, *p, *B, 0.002) if end == 0 else M.Wire(n1, *B, *p, 0.002)
                m = M.Mininec(29.98, [w], media=[M.Medium(0, 0)])
            return dict(m=m, h=h)
        with symx.shadow.trace_functions(sh):
            paths = symx.explore(fn, query_timeout_ms=qt, max_paths=20)
        res['functions'] = sorted(set(res['functions']) | set(sh.entered))
        res['paths'] += len(paths)
        res['solver_s'] += paths.solver_s
        res['queries'] += paths.queries
        for pi, p in enumerate(paths):
            on = 'ground-height-end%d/path%d' % (end + 1, pi)
            if p.exc is not None:
                if isinstance(p.exc, ValueError):
                    continue
                raise symx.HarnessError('%s: %r' % (on, p.exc)) from p.exc
            n = len(p.value['m'].pulses)
            h = p.value['h']
            grounded = (n == n1)
            if not grounded and n != n1 - 1:
                raise symx.HarnessError('ground-height harness: unexpected pulse count %d' % n)
            # |h| < eps  <=>  grounded.  eps is 1/1000 of the shortest segment of the wire AS ENTERED (its length changes with h by
            # a few 1e-4 relative), so a sliver of 1e-3 relative around the tolerance is left undecided
            goal = z3.And(h.n < core.RV(eps * (1 + 1e-3)), h.n > core.RV(-eps * (1 + 1e-3))) if grounded else \
                z3.Or(h.n >= core.RV(eps * (1 - 1e-3)), h.n <= core.RV(-eps * (1 - 1e-3)))
            s = z3.Solver()
            s.set('timeout', qt)
            s.add(p.pc + p.axioms)
            s.add(z3.Not(goal))
            r = str(s.check())
            res['queries'] += 1
            on += '/grounded<=>within tolerance' if grounded else '/not grounded<=>beyond tolerance'
            if r == 'unsat':
                res['obls'].append((on, 'discharged', None))
            elif r == 'unknown':
                res['obls'].append((on, 'inconclusive', None))
            else:
                hc = float(core.model_value(s.model(), h))
                pc_ = (A[0], A[1], hc)
                try:
                    mr = mm.Mininec(29.98, [mm.Wire(n1, *pc_, *B, 0.002) if end == 0 else mm.Wire(n1, *B, *pc_, 0.002)], media=[mm.Medium(0, 0)])
                    got = len(mr.pulses)
                except ValueError:
                    got = None
                eps_h = 1e-3 * float(np.linalg.norm(np.array(B) - np.array(pc_))) / n1          # tolerance of the wire as entered
                if abs(abs(hc) - eps_h) < 1e-6 * eps_h:
                    res['obls'].append((on, 'inconclusive', 'model on the tolerance boundary'))
                    continue
                want = n1 if abs(hc) < eps_h else n1 - 1
                if got is not None and got != want:
                    v = ('C12:ground-height', 'a wire whose end %d is %r above the ground plane (tolerance %r) gets %d pulses, the topology formula gives %d'
                         % (end + 1, hc, eps, got, want), dict(kind='ground-height', height=hc, end=end + 1))
                    res['violations'].append(v)
                    res['obls'].append((on, 'violation', v[1]))
                else:
                    res['obls'].append((on, 'spurious', dict(height=hc)))
    return res


def main(args):
    ck = Check('C12', args)
    ck.shadow_stats = symx.load().stats
    qt = 10000 if ck.tier == 'quick' else 60000
    jobs = []
    if ck.tier == 'quick':
        plan = [(1, (3,), False), (1, (1,), True), (1, (2,), True), (2, (2, 1), False), (2, (1, 3), True),
                (2, (2, 2), True)]
        plan3 = [(3, (1, 2, 1), False), (3, (2, 1, 1), True)]
    else:
        plan = [(1, (n,), g) for n in (1, 2, 3) for g in (False, True)] + \
               [(2, ns, g) for ns in itertools.product((1, 2, 3), repeat=2) for g in (False, True)]
        plan3 = [(3, ns, g) for ns in ((1, 1, 1), (2, 1, 2), (1, 2, 3), (3, 2, 1)) for g in (False, True)]
    for nw, ns, g in plan:
        jobs.append((nw, ns, g, qt, None))
    for nw, ns, g in plan3:
        for fixed in range(16):
            jobs.append((nw, ns, g, qt, fixed))
    if ck.tier == 'thorough':
        for fixed in range(16):
            jobs.append((4, (1, 2, 1, 1), False, qt, fixed))
    tjobs = [('near', qt), ('far', qt), ('chain-near', qt), ('chain-far', qt), ('moved-near', qt), ('moved-far', qt), ('taper-near', qt), ('taper-far', qt)]
    # every job has a share of one hard wall budget: a job that is still running at the deadline is killed and counted as ONE inconclusive
    # obligation, never as a pass (a change to the code can turn the linear queries of a job into nonlinear ones that do not finish)
    budget = 480 if ck.tier == 'quick' else 7200
    results, killed = [], []
    pool = mp.Pool(min(16, os.cpu_count() or 1))
    try:
        # the cheap, decisive jobs first
        pend = [('tolerance-%s' % j[0], pool.apply_async(tolerance_job, (j,))) for j in tjobs]
        pend += [('ground-height', pool.apply_async(ground_height_job, ((qt,),)))]
        pend += [('topology-%dw-%s-%s-%s' % (j[0], j[1], 'gnd' if j[2] else 'free', j[4]), pool.apply_async(topo_job, (j,))) for j in jobs]
        deadline = time.time() + budget
        for nm, ar in pend:
            try:
                results.append(ar.get(timeout=max(0.1, deadline - time.time())))
            except mp.TimeoutError:
                killed.append(nm)
    finally:
        pool.terminate()
        pool.join()
    for nm in killed:
        ck.record('%s/job finished within the wall budget of %d s' % (nm, budget), 'inconclusive', 'killed at the deadline')
    funcs = set()
    for r in results:
        funcs.update(r['functions'])
        ck.paths += r['paths']
        ck.solver_s += r['solver_s']
        ck.queries += r['queries']
        if r['truncated']:
            ck.paths_truncated += 1
        for on, verdict, detail in r['obls']:
            if verdict == 'violation':
                continue
            ck.record(on, verdict, detail, sample=dict(obligation=on, verdict=verdict, detail=detail,
                                                       symbolic_inputs='all wire end coordinates (6 reals per wire)'))
        for key, what, rd in r['violations']:
            verdict = ck.report_violation(key, what, rd)
            ck.record(key, verdict, what, sample=dict(counterexample=rd, verdict=verdict))
    ck.twin('paths', ck.paths > 0)
    ck.functions = funcs
    ck.bounds.update(plans=[dict(wires=a, segments=b, ground=c) for a, b, c in plan + plan3],
                     four_wires=(ck.tier == 'thorough'),
                     tolerance='two wires, second wire end displaced by a symbolic vector with |d_i| <= 3e-4 / 3e-3')
    ck.assumptions += [
        'abstract Euclidean length: norm(v) is a fresh real, 0 iff v = 0, else in [1, 100] (so 1e-3 * longest < shortest distance); '
        'triangle inequality not modelled (over-approximation of geometry)',
        'generic position: two end points are identical or differ in every coordinate; |z| >= 1 or, over ground, z = 0',
        'tolerance clause decided separately with the exact norm (sqrt by its defining equation) on a concrete two-wire frame',
    ]
    ck.stubs += ['np.linalg.norm -> abstract norm (topology jobs only)']
    ck.outside += ['more than 3 (thorough: 4) wires', 'axis-parallel / coplanar-with-axes wires (not in generic position)',
                   'arcs and helices (run concretely by other checks)']
    return ck.finish('Real model construction executed on symbolic wire end coordinates; the solver enumerates the feasible '
                     'coincidence patterns (one path each) and decides the placement identities for all coordinates of the '
                     'class; count and numbering are compared with the topology formula on every path.')


if __name__ == '__main__':
    run_check('C12', main)
